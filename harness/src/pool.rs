//! A pool of worker subprocesses with parent-side deadlines.
//! The deadline is on the worker's CPU time (from /proc/<pid>/stat), so a loaded machine cannot
//! turn a slow case into a "hang"; a wall-clock cap guards against a blocked worker.
//! A timed-out job is re-run alone in a fresh worker with a much longer deadline before any
//! call is declared "hang"; a dead worker (abort, stack overflow) is reported as "abort".
use serde_json::{json, Value};
use std::io::{BufRead, BufReader, Write};
use std::process::{Child, ChildStdin, Command, Stdio};
use std::sync::atomic::{AtomicUsize, Ordering};
use std::sync::mpsc::{channel, Receiver, RecvTimeoutError};
use std::sync::Mutex;
use std::time::{Duration, Instant};

pub struct Limits {
    pub cpu_ms: u64,
    pub confirm_factor: u64,
    pub wall_ms: u64,
}

impl Default for Limits {
    fn default() -> Self {
        let cpu_ms = std::env::var("VERIF_CPU_MS").ok().and_then(|s| s.parse().ok()).unwrap_or(2000);
        Limits { cpu_ms, confirm_factor: 10, wall_ms: 60_000 }
    }
}

struct Proc {
    child: Child,
    stdin: ChildStdin,
    rx: Receiver<String>,
}

fn spawn() -> Proc {
    let exe = std::env::current_exe().expect("current_exe");
    let mut child = Command::new(exe)
        .arg("worker")
        .stdin(Stdio::piped())
        .stdout(Stdio::piped())
        .stderr(Stdio::null())
        .spawn()
        .expect("spawn worker");
    let stdin = child.stdin.take().unwrap();
    let stdout = child.stdout.take().unwrap();
    let (tx, rx) = channel();
    std::thread::spawn(move || {
        let r = BufReader::new(stdout);
        for line in r.lines() {
            match line {
                Ok(l) => {
                    if tx.send(l).is_err() {
                        break;
                    }
                }
                Err(_) => break,
            }
        }
    });
    Proc { child, stdin, rx }
}

fn cpu_ms(pid: u32) -> Option<u64> {
    let s = std::fs::read_to_string(format!("/proc/{}/stat", pid)).ok()?;
    let rest = s.rsplit_once(')')?.1;
    let f: Vec<&str> = rest.split_whitespace().collect();
    // after ')' the fields start at index 0 = state; utime = field 14 overall = index 11 here
    let ut: u64 = f.get(11)?.parse().ok()?;
    let st: u64 = f.get(12)?.parse().ok()?;
    Some((ut + st) * 10)
}

enum Exec {
    Reply(Value),
    Timeout,
    Died,
}

fn exec(p: &mut Proc, job: &Value, cpu_limit_ms: u64, wall_ms: u64) -> Exec {
    let line = format!("{}\n", job);
    if p.stdin.write_all(line.as_bytes()).is_err() || p.stdin.flush().is_err() {
        return Exec::Died;
    }
    let pid = p.child.id();
    let cpu0 = cpu_ms(pid).unwrap_or(0);
    let t0 = Instant::now();
    loop {
        match p.rx.recv_timeout(Duration::from_millis(200)) {
            Ok(l) => match serde_json::from_str::<Value>(&l) {
                Ok(v) => return Exec::Reply(v),
                Err(_) => return Exec::Died,
            },
            Err(RecvTimeoutError::Disconnected) => return Exec::Died,
            Err(RecvTimeoutError::Timeout) => {
                let used = cpu_ms(pid).map(|c| c.saturating_sub(cpu0));
                match used {
                    None => return Exec::Died,
                    Some(u) if u > cpu_limit_ms => return Exec::Timeout,
                    _ => {}
                }
                if t0.elapsed().as_millis() as u64 > wall_ms.max(cpu_limit_ms * 3) {
                    return Exec::Timeout;
                }
            }
        }
    }
}

fn kill(p: &mut Proc) {
    let _ = p.child.kill();
    let _ = p.child.wait();
}

pub static CONFIRMED_HANGS: AtomicUsize = AtomicUsize::new(0);
pub static FAULT_JOBS: AtomicUsize = AtomicUsize::new(0);
/// After this many jobs needed fault attribution (hang / abort), the run has its answer: remaining
/// jobs are skipped (counted) so that a badly broken tree costs minutes, not hours.
pub const MAX_FAULT_JOBS: usize = 24;
pub static SKIPPED_JOBS: AtomicUsize = AtomicUsize::new(0);

/// Run one job to a definitive reply: hangs and aborts become data in the reply.
fn run_definitive(p: &mut Proc, job: &Value, lim: &Limits) -> Value {
    match exec(p, job, lim.cpu_ms, lim.wall_ms) {
        Exec::Reply(v) => return v,
        Exec::Timeout | Exec::Died => {}
    }
    kill(p);
    *p = spawn();
    FAULT_JOBS.fetch_add(1, Ordering::SeqCst);
    // attribute the problem to individual calls: compile alone, then compile + one call each
    let n_confirmed = CONFIRMED_HANGS.load(Ordering::SeqCst);
    let factor = if n_confirmed < 3 { lim.confirm_factor } else { 3 };
    let single = |calls: Vec<Value>, p: &mut Proc| -> Value {
        let mut j = job.clone();
        j["calls"] = Value::Array(calls);
        j["facts"] = Value::Bool(false);
        match exec(p, &j, lim.cpu_ms * factor, lim.wall_ms * 2) {
            Exec::Reply(v) => v,
            Exec::Timeout => {
                kill(p);
                *p = spawn();
                CONFIRMED_HANGS.fetch_add(1, Ordering::SeqCst);
                json!({"fault":"hang"})
            }
            Exec::Died => {
                kill(p);
                *p = spawn();
                json!({"fault":"abort"})
            }
        }
    };
    let c = single(vec![], p);
    if let Some(f) = c.get("fault") {
        return json!({"id": job["id"], "compile": {"k": f}, "res": []});
    }
    let mut res = Vec::new();
    if c["compile"]["k"] == "ok" {
        if let Some(calls) = job["calls"].as_array() {
            for call in calls {
                let r = single(vec![call.clone()], p);
                if let Some(f) = r.get("fault") {
                    res.push(json!({"k": f}));
                } else {
                    res.push(r["res"].get(0).cloned().unwrap_or(json!({"k":"badjob"})));
                }
            }
        }
    }
    json!({"id": job["id"], "compile": c["compile"], "res": res})
}

/// Run all jobs from `jobs` on `n` workers; `handle(job, reply)` is called from the worker threads.
pub fn process<I, H>(n: usize, jobs: I, handle: H)
where
    I: Iterator<Item = Value> + Send,
    H: Fn(Value, Value) + Sync,
{
    let jobs = Mutex::new(jobs);
    let lim = Limits::default();
    std::thread::scope(|s| {
        for _ in 0..n {
            s.spawn(|| {
                let mut p = spawn();
                loop {
                    let job = {
                        let mut g = jobs.lock().unwrap();
                        g.next()
                    };
                    let job = match job {
                        Some(j) => j,
                        None => break,
                    };
                    if FAULT_JOBS.load(Ordering::SeqCst) >= MAX_FAULT_JOBS {
                        SKIPPED_JOBS.fetch_add(1, Ordering::SeqCst);
                        continue;
                    }
                    let reply = run_definitive(&mut p, &job, &lim);
                    handle(job, reply);
                }
                kill(&mut p);
            });
        }
    });
}
