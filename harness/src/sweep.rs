//! sweep: observe, through is_match of ^C$ on every one-character string, which scalar values the code
//! gives to a class C.
//!   sweep unicode --out DIR --splits FILE   all category / block / multi-character escapes over all 1,112,064
//!                                           scalar values; output = maximal runs of equal membership vectors
//!                                           (additionally split at the code points listed in FILE)
//!   sweep classes --in FILE --out FILE [--full]   class expressions (one JSON {"pat":[..],"flags":[..]} per line):
//!                                           full interval sets, or membership at the given points
use crate::{arg, cps_to_string, string_to_cps};
use regexml::Regex;
use serde_json::{json, Value};
use std::io::{BufRead, Write};

fn scalars() -> impl Iterator<Item = u32> {
    (0u32..=0x10FFFF).filter(|c| !(0xD800..=0xDFFF).contains(c))
}

const CATS: &[&str] = &[
    "L", "Lu", "Ll", "Lt", "Lm", "Lo", "M", "Mn", "Mc", "Me", "N", "Nd", "Nl", "No", "P", "Pc", "Pd", "Ps", "Pe", "Pi",
    "Pf", "Po", "Z", "Zs", "Zl", "Zp", "S", "Sm", "Sc", "Sk", "So", "C", "Cc", "Cf", "Co", "Cn",
];

pub fn main(args: &[String]) -> i32 {
    match args.first().map(|s| s.as_str()) {
        Some("unicode") => unicode(&args[1..]),
        Some("classes") => classes(&args[1..]),
        _ => 2,
    }
}

fn compile_all(pats: &[String], flags: &str) -> Result<Vec<Regex>, String> {
    let mut v = Vec::new();
    for p in pats {
        match Regex::xpath(p, flags) {
            Ok(r) => v.push(r),
            Err(e) => return Err(format!("{}: {:?}", p, e)),
        }
    }
    Ok(v)
}

fn unicode(args: &[String]) -> i32 {
    let out = arg(args, "--out").unwrap_or("sweep").to_string();
    let blocks_file = arg(args, "--blocks").unwrap_or("data/blocks.json").to_string();
    let splits_file = arg(args, "--splits").unwrap_or("").to_string();
    let nthreads: usize = arg(args, "--threads").and_then(|s| s.parse().ok()).unwrap_or(12);
    std::fs::create_dir_all(&out).expect("out dir");
    // the escapes under test, with the description the trace spec understands
    let mut names: Vec<Value> = Vec::new();
    let mut pats: Vec<String> = Vec::new();
    for c in CATS {
        for neg in [false, true] {
            names.push(json!({"t":"p","neg":neg,"name":c}));
            pats.push(format!("^\\{}{{{}}}$", if neg { 'P' } else { 'p' }, c));
        }
    }
    for e in ["d", "D", "w", "W", "s", "S", "i", "I", "c", "C"] {
        names.push(json!({"t":"e","e":e}));
        pats.push(format!("^\\{}$", e));
    }
    let blocks: Value = serde_json::from_str(&std::fs::read_to_string(&blocks_file).expect("blocks.json")).expect("json");
    let mut block_names: Vec<String> = blocks["blocks"]
        .as_array()
        .unwrap()
        .iter()
        .map(|b| cps_to_string(&b["name"]).unwrap())
        .collect();
    block_names.push("PrivateUse".to_string());
    block_names.sort();
    block_names.dedup();
    for b in &block_names {
        for neg in [false, true] {
            names.push(json!({"t":"b","neg":neg,"name":string_to_cps(b)}));
            pats.push(format!("^\\{}{{Is{}}}$", if neg { 'P' } else { 'p' }, b));
        }
    }
    let mut splits: Vec<u32> = Vec::new();
    if !splits_file.is_empty() {
        let v: Value = serde_json::from_str(&std::fs::read_to_string(&splits_file).expect("splits")).expect("json");
        splits = v.as_array().unwrap().iter().map(|x| x.as_u64().unwrap() as u32).collect();
    }
    let split_set: std::collections::HashSet<u32> = splits.into_iter().collect();
    let all: Vec<u32> = scalars().collect();
    let chunk = all.len().div_ceil(nthreads);
    let pats_ref = &pats;
    let split_ref = &split_set;
    let results: Vec<Result<Vec<(u32, u32, Vec<usize>)>, String>> = std::thread::scope(|s| {
        let hs: Vec<_> = all
            .chunks(chunk)
            .map(|ch| {
                s.spawn(move || {
                    let res = compile_all(pats_ref, "")?;
                    let mut segs: Vec<(u32, u32, Vec<usize>)> = Vec::new();
                    let mut buf = String::new();
                    for &cp in ch {
                        buf.clear();
                        buf.push(char::from_u32(cp).unwrap());
                        let yes: Vec<usize> = res.iter().enumerate().filter(|(_, r)| r.is_match(&buf)).map(|(i, _)| i).collect();
                        match segs.last_mut() {
                            Some((_, hi, y)) if *y == yes && *hi + 1 == cp && !split_ref.contains(&cp) => *hi = cp,
                            _ => segs.push((cp, cp, yes)),
                        }
                    }
                    Ok(segs)
                })
            })
            .collect();
        hs.into_iter().map(|h| h.join().unwrap()).collect()
    });
    let mut f = std::fs::File::create(format!("{}/unicode.ndjson", out)).expect("out file");
    writeln!(f, "{}", json!({"ev":"names","names":names})).unwrap();
    let mut nseg = 0;
    for r in results {
        match r {
            Err(e) => {
                eprintln!("sweep: cannot compile {}", e);
                writeln!(f, "{}", json!({"ev":"compile_failed","what":e})).unwrap();
                return 0;
            }
            Ok(segs) => {
                for (lo, hi, yes) in segs {
                    // 1-based indices for TLA+
                    let y: Vec<usize> = yes.iter().map(|i| i + 1).collect();
                    writeln!(f, "{}", json!({"ev":"seg","lo":lo,"hi":hi,"yes":y})).unwrap();
                    nseg += 1;
                }
            }
        }
    }
    println!("{}", json!({"escapes": pats.len(), "segments": nseg, "scalars": all.len()}));
    0
}

fn set_of(re: &Regex) -> Vec<(u32, u32)> {
    let mut out: Vec<(u32, u32)> = Vec::new();
    let mut buf = String::new();
    for cp in scalars() {
        buf.clear();
        buf.push(char::from_u32(cp).unwrap());
        if re.is_match(&buf) {
            match out.last_mut() {
                Some((_, hi)) if *hi + 1 == cp => *hi = cp,
                _ => out.push((cp, cp)),
            }
        }
    }
    out
}

fn classes(args: &[String]) -> i32 {
    let input = arg(args, "--in").unwrap_or("classes.ndjson").to_string();
    let out = arg(args, "--out").unwrap_or("classes_out.ndjson").to_string();
    let full = args.iter().any(|a| a == "--full");
    let nthreads: usize = arg(args, "--threads").and_then(|s| s.parse().ok()).unwrap_or(12);
    let lines: Vec<String> = std::io::BufReader::new(std::fs::File::open(&input).expect("input"))
        .lines()
        .map_while(Result::ok)
        .collect();
    let chunk = lines.len().div_ceil(nthreads).max(1);
    let outs: Vec<Vec<String>> = std::thread::scope(|s| {
        let hs: Vec<_> = lines
            .chunks(chunk)
            .map(|ch| {
                s.spawn(move || {
                    let mut res = Vec::new();
                    for l in ch {
                        let j: Value = match serde_json::from_str(l) {
                            Ok(j) => j,
                            Err(_) => continue,
                        };
                        let c = cps_to_string(&j["pat"]).unwrap_or_default();
                        let flags = cps_to_string(&j["flags"]).unwrap_or_default();
                        // the class on its own, under a quantifier, inside a group next to an optional literal
                        let ctxs = [format!("^{}$", c), format!("^(?:{})+$", c), format!("^\u{1}?({})$", c)];
                        let mut sets = Vec::new();
                        let mut err = json!({});
                        for p in &ctxs {
                            let r = std::panic::catch_unwind(|| Regex::xpath(p, &flags));
                            match r {
                                Ok(Ok(re)) => {
                                    if full {
                                        let s = set_of(&re);
                                        sets.push(json!(s.iter().map(|(a, b)| json!([a, b])).collect::<Vec<_>>()));
                                    } else {
                                        let pts: Vec<Value> = j["pts"]
                                            .as_array()
                                            .cloned()
                                            .unwrap_or_default()
                                            .iter()
                                            .filter_map(|x| x.as_u64())
                                            .filter_map(|cp| char::from_u32(cp as u32))
                                            .map(|ch| json!([ch as u32, re.is_match(&ch.to_string())]))
                                            .collect();
                                        sets.push(json!(pts));
                                    }
                                }
                                Ok(Err(e)) => {
                                    err = crate::worker::err_value(&e);
                                    break;
                                }
                                Err(_) => {
                                    err = json!({"k":"panic"});
                                    break;
                                }
                            }
                        }
                        res.push(
                            json!({"ev": if full {"class"} else {"classpts"}, "pat": j["pat"], "flags": j["flags"],
                                   "sets": sets, "err": err})
                            .to_string(),
                        );
                    }
                    res
                })
            })
            .collect();
        hs.into_iter().map(|h| h.join().unwrap()).collect()
    });
    let mut f = std::fs::File::create(&out).expect("out");
    let mut n = 0;
    for o in outs {
        for l in o {
            writeln!(f, "{}", l).unwrap();
            n += 1;
        }
    }
    println!("{}", json!({"classes": n, "full": full}));
    0
}
