//! Worker: executes jobs against the real code.  Outcomes are data:
//! ok / err(kind) / panic(file:line).  (Hangs are detected by the parent.)
//!
//! Job:  {"id":N, "pat":[cps], "flags":[cps], "x":bool, "unopt":bool?, "facts":bool?,
//!        "calls":[{"op":"is_match","s":[..]} | {"op":"replace","s":[..],"r":[..]}
//!                 | {"op":"tokenize","s":[..]} | {"op":"analyze","s":[..]}]}
//! Reply: {"id":N, "compile":RES, "facts":..?, "res":[RES...]}
use crate::{cps_to_string, string_to_cps};
use regexml::{AnalyzeEntry, Error, MatchEntry, Regex};
use serde_json::{json, Value};
use std::cell::RefCell;
use std::io::{BufRead, Write};
use std::panic::{catch_unwind, AssertUnwindSafe};

thread_local! {
    static LAST_PANIC: RefCell<String> = const { RefCell::new(String::new()) };
}

pub fn install_panic_hook() {
    std::panic::set_hook(Box::new(|info| {
        let loc = info
            .location()
            .map(|l| {
                let f = l.file();
                let f = f.rsplit_once("regexml/src/").map(|x| x.1).unwrap_or(f);
                format!("{}:{}", f, l.line())
            })
            .unwrap_or_else(|| "?".to_string());
        LAST_PANIC.with(|p| *p.borrow_mut() = loc);
    }));
}

fn guarded<T>(f: impl FnOnce() -> T) -> Result<T, Value> {
    match catch_unwind(AssertUnwindSafe(f)) {
        Ok(v) => Ok(v),
        Err(_) => {
            let at = LAST_PANIC.with(|p| p.borrow().clone());
            Err(json!({"k":"panic","at":at}))
        }
    }
}

pub fn err_value(e: &Error) -> Value {
    let name = match e {
        Error::Internal => "Internal",
        Error::InvalidFlags(_) => "InvalidFlags",
        Error::Syntax(_) => "Syntax",
        Error::MatchesEmptyString => "MatchesEmptyString",
        Error::InvalidReplacementString(_) => "InvalidReplacementString",
    };
    json!({"k":"err","e":name})
}

fn tree_value(entries: &[MatchEntry]) -> Value {
    Value::Array(
        entries
            .iter()
            .map(|e| match e {
                MatchEntry::String(s) => json!({"s": string_to_cps(s)}),
                MatchEntry::Group { nr, value } => json!({"g": nr, "v": tree_value(value)}),
            })
            .collect(),
    )
}

pub fn entry_value(e: &AnalyzeEntry) -> Value {
    match e {
        AnalyzeEntry::Match(m) => json!({"m": tree_value(m)}),
        AnalyzeEntry::NonMatch(s) => json!({"n": string_to_cps(s)}),
    }
}

pub fn compile(pat: &str, flags: &str, xpath: bool, unopt: bool) -> Result<Regex, Value> {
    let r = guarded(|| {
        if unopt {
            Regex::verif_unoptimized(pat, flags, xpath)
        } else if xpath {
            Regex::xpath(pat, flags)
        } else {
            Regex::xsd(pat, flags)
        }
    })?;
    r.map_err(|e| err_value(&e))
}

/// Drain an iterator with a hard item cap; afterwards poll 3 more times (must stay None).
fn drain<T>(
    it: &mut dyn Iterator<Item = T>,
    cap: usize,
    conv: impl Fn(&T) -> Value,
) -> (Vec<Value>, bool, usize) {
    let mut out = Vec::new();
    let mut capped = false;
    loop {
        match it.next() {
            Some(x) => {
                out.push(conv(&x));
                if out.len() > cap {
                    capped = true;
                    break;
                }
            }
            None => break,
        }
    }
    let mut extra = 0;
    if !capped {
        for _ in 0..3 {
            if it.next().is_some() {
                extra += 1;
            }
        }
    }
    (out, capped, extra)
}

pub fn run_call(re: &Regex, call: &Value) -> Value {
    let op = call["op"].as_str().unwrap_or("");
    let s = match cps_to_string(&call["s"]) {
        Some(s) => s,
        None => return json!({"k":"badjob"}),
    };
    let len = s.chars().count();
    regexml::verif_take_cutoffs();
    let r = match op {
        "is_match" => guarded(|| json!({"k":"ok","v": re.is_match(&s)})),
        "replace" => {
            let r = cps_to_string(&call["r"]).unwrap_or_default();
            guarded(|| match re.replace_all(&s, &r) {
                Ok(v) => json!({"k":"ok","v": string_to_cps(&v)}),
                Err(e) => err_value(&e),
            })
        }
        "tokenize" => guarded(|| match re.tokenize(&s) {
            Ok(mut it) => {
                let (v, capped, extra) = drain(&mut it, 2 * len + 8, |t: &String| string_to_cps(t));
                json!({"k":"ok","v":v,"capped":capped,"extra":extra})
            }
            Err(e) => err_value(&e),
        }),
        "analyze" => guarded(|| match re.analyze(&s) {
            Ok(mut it) => {
                let (v, capped, extra) = drain(&mut it, 2 * len + 8, entry_value);
                json!({"k":"ok","v":v,"capped":capped,"extra":extra})
            }
            Err(e) => err_value(&e),
        }),
        _ => Ok(json!({"k":"badjob"})),
    };
    let mut v = match r {
        Ok(v) => v,
        Err(p) => p,
    };
    let cut = regexml::verif_take_cutoffs();
    if cut != 0 {
        v["cut"] = json!(cut);
    }
    v
}

pub fn run_job(job: &Value) -> Value {
    let id = job["id"].clone();
    let pat = cps_to_string(&job["pat"]);
    let flags = cps_to_string(&job["flags"]);
    let (pat, flags) = match (pat, flags) {
        (Some(p), Some(f)) => (p, f),
        _ => return json!({"id":id,"compile":{"k":"badjob"},"res":[]}),
    };
    let xpath = job["x"].as_bool().unwrap_or(true);
    let unopt = job["unopt"].as_bool().unwrap_or(false);
    regexml::verif_take_cutoffs();
    let compiled = compile(&pat, &flags, xpath, unopt);
    let compile_cut = regexml::verif_take_cutoffs();
    match compiled {
        Err(e) => json!({"id":id,"compile":e,"res":[]}),
        Ok(re) => {
            let mut res = Vec::new();
            if let Some(calls) = job["calls"].as_array() {
                for c in calls {
                    res.push(run_call(&re, c));
                }
            }
            let mut out = json!({"id":id,"compile":{"k":"ok"},"res":res});
            // an optional second spelling of the pattern, run through the same calls (law pairs, C20)
            if let (Some(p2), Some(f2)) = (cps_to_string(&job["pat2"]), cps_to_string(&job["flags2"])) {
                regexml::verif_take_cutoffs();
                match compile(&p2, &f2, job["x2"].as_bool().unwrap_or(true), job["unopt2"].as_bool().unwrap_or(false)) {
                    Err(e) => {
                        out["compile2"] = e;
                        out["res2"] = json!([]);
                    }
                    Ok(re2) => {
                        let mut res2 = Vec::new();
                        if let Some(calls) = job["calls"].as_array() {
                            for c in calls {
                                res2.push(run_call(&re2, c));
                            }
                        }
                        out["compile2"] = json!({"k":"ok"});
                        out["res2"] = Value::Array(res2);
                    }
                }
            }
            if compile_cut != 0 {
                out["compile"]["cut"] = json!(compile_cut);
            }
            if job["facts"].as_bool().unwrap_or(false) {
                let f = guarded(|| re.verif_facts());
                out["facts"] = match f {
                    Ok(s) => serde_json::from_str(&s).unwrap_or(Value::Null),
                    Err(p) => p,
                };
            }
            out
        }
    }
}

pub fn main() -> i32 {
    unsafe {
        // die with the parent; cap memory (8 GB) and CPU (10 min) as a backstop against runaway cases
        libc::prctl(libc::PR_SET_PDEATHSIG, libc::SIGKILL);
        let mem = libc::rlimit { rlim_cur: 8 << 30, rlim_max: 8 << 30 };
        libc::setrlimit(libc::RLIMIT_AS, &mem);
        let cpu = libc::rlimit { rlim_cur: 600, rlim_max: 600 };
        libc::setrlimit(libc::RLIMIT_CPU, &cpu);
    }
    install_panic_hook();
    let stdin = std::io::stdin();
    let stdout = std::io::stdout();
    let mut out = stdout.lock();
    for line in stdin.lock().lines() {
        let line = match line {
            Ok(l) => l,
            Err(_) => break,
        };
        if line.is_empty() {
            continue;
        }
        let reply = match serde_json::from_str::<Value>(&line) {
            Ok(job) => run_job(&job),
            Err(_) => json!({"id":null,"compile":{"k":"badjob"},"res":[]}),
        };
        if writeln!(out, "{}", reply).is_err() || out.flush().is_err() {
            break;
        }
    }
    0
}
