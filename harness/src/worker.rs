//! Worker: executes jobs against the real code.  Outcomes are data:
//! ok / err(kind) / panic(file:line).  (Hangs are detected by the parent.)
//!
//! Job:  {"id":N, "pat":[cps], "flags":[cps], "x":bool, "unopt":bool?, "facts":bool?,
//!        "calls":[{"op":"is_match","s":[..]} | {"op":"replace","s":[..],"r":[..]}
//!                 | {"op":"tokenize","s":[..]} | {"op":"analyze","s":[..]}]}
//! Reply: {"id":N, "compile":RES, "facts":..?, "res":[RES...]}
use crate::{cps_to_string, string_to_cps};
use regexml::{AnalyzeEntry, Error, MatchEntry, Regex};
use serde_json::{json, Value};
use std::cell::RefCell;
use std::io::{BufRead, Write};
use std::panic::{catch_unwind, AssertUnwindSafe};

thread_local! {
    static LAST_PANIC: RefCell<String> = const { RefCell::new(String::new()) };
}

pub fn install_panic_hook() {
    std::panic::set_hook(Box::new(|info| {
        let loc = info
            .location()
            .map(|l| {
                let f = l.file();
                let f = f.rsplit_once("regexml/src/").map(|x| x.1).unwrap_or(f);
                format!("{}:{}", f, l.line())
            })
            .unwrap_or_else(|| "?".to_string());
        LAST_PANIC.with(|p| *p.borrow_mut() = loc);
    }));
}

fn guarded<T>(f: impl FnOnce() -> T) -> Result<T, Value> {
    match catch_unwind(AssertUnwindSafe(f)) {
        Ok(v) => Ok(v),
        Err(_) => {
            let at = LAST_PANIC.with(|p| p.borrow().clone());
            Err(json!({"k":"panic","at":at}))
        }
    }
}

pub fn err_value(e: &Error) -> Value {
    let name = match e {
        Error::Internal => "Internal",
        Error::InvalidFlags(_) => "InvalidFlags",
        Error::Syntax(_) => "Syntax",
        Error::MatchesEmptyString => "MatchesEmptyString",
        Error::InvalidReplacementString(_) => "InvalidReplacementString",
    };
    json!({"k":"err","e":name})
}

fn tree_value(entries: &[MatchEntry]) -> Value {
    Value::Array(
        entries
            .iter()
            .map(|e| match e {
                MatchEntry::String(s) => json!({"s": string_to_cps(s)}),
                MatchEntry::Group { nr, value } => json!({"g": nr, "v": tree_value(value)}),
            })
            .collect(),
    )
}

pub fn entry_value(e: &AnalyzeEntry) -> Value {
    match e {
        AnalyzeEntry::Match(m) => json!({"m": tree_value(m)}),
        AnalyzeEntry::NonMatch(s) => json!({"n": string_to_cps(s)}),
    }
}

pub fn compile(pat: &str, flags: &str, xpath: bool, unopt: bool) -> Result<Regex, Value> {
    let r = guarded(|| {
        if unopt {
            Regex::verif_unoptimized(pat, flags, xpath)
        } else if xpath {
            Regex::xpath(pat, flags)
        } else {
            Regex::xsd(pat, flags)
        }
    })?;
    r.map_err(|e| err_value(&e))
}

thread_local! {
    /// cut-off notes gathered over the steps of one call (with the tracer on, every traced public call - each
    /// `next()` of an iterator too - starts from zero, so the notes are collected step by step)
    static CUT_ACC: std::cell::Cell<u32> = const { std::cell::Cell::new(0) };
}

fn gather_cut() {
    let c = regexml::verif_take_cutoffs();
    CUT_ACC.with(|a| a.set(a.get() | c));
}

/// Drain an iterator with a hard item cap; afterwards poll 3 more times (must stay None).
fn drain<T>(
    it: &mut dyn Iterator<Item = T>,
    cap: usize,
    conv: impl Fn(&T) -> Value,
) -> (Vec<Value>, bool, usize) {
    let mut out = Vec::new();
    let mut capped = false;
    loop {
        let item = it.next();
        gather_cut();
        match item {
            Some(x) => {
                out.push(conv(&x));
                if out.len() > cap {
                    capped = true;
                    break;
                }
            }
            None => break,
        }
    }
    let mut extra = 0;
    if !capped {
        for _ in 0..3 {
            if it.next().is_some() {
                extra += 1;
            }
            gather_cut();
        }
    }
    (out, capped, extra)
}

pub fn run_call(re: &Regex, call: &Value) -> Value {
    let op = call["op"].as_str().unwrap_or("");
    let s = match cps_to_string(&call["s"]) {
        Some(s) => s,
        None => return json!({"k":"badjob"}),
    };
    let len = s.chars().count();
    regexml::verif_take_cutoffs();
    CUT_ACC.with(|a| a.set(0));
    let r = match op {
        "is_match" => guarded(|| json!({"k":"ok","v": re.is_match(&s)})),
        "replace" => {
            let r = cps_to_string(&call["r"]).unwrap_or_default();
            guarded(|| match re.replace_all(&s, &r) {
                Ok(v) => json!({"k":"ok","v": string_to_cps(&v)}),
                Err(e) => err_value(&e),
            })
        }
        "tokenize" => guarded(|| match re.tokenize(&s) {
            Ok(mut it) => {
                gather_cut();
                let (v, capped, extra) = drain(&mut it, 2 * len + 8, |t: &String| string_to_cps(t));
                json!({"k":"ok","v":v,"capped":capped,"extra":extra})
            }
            Err(e) => err_value(&e),
        }),
        "analyze" => guarded(|| match re.analyze(&s) {
            Ok(mut it) => {
                gather_cut();
                let (v, capped, extra) = drain(&mut it, 2 * len + 8, entry_value);
                json!({"k":"ok","v":v,"capped":capped,"extra":extra})
            }
            Err(e) => err_value(&e),
        }),
        _ => Ok(json!({"k":"badjob"})),
    };
    let mut v = match r {
        Ok(v) => v,
        Err(p) => p,
    };
    let cut = regexml::verif_take_cutoffs() | CUT_ACC.with(|a| a.replace(0));
    if cut != 0 {
        v["cut"] = json!(cut);
    }
    v
}

// the iterator types are not exported by name: keep them behind boxed iterators (they never leave the
// thread that opened them)
enum It {
    Tok(Box<dyn Iterator<Item = String>>),
    Ana(Box<dyn Iterator<Item = AnalyzeEntry>>),
}

fn hist_op(op: &Value, regs: &std::sync::RwLock<std::collections::HashMap<u64, &'static Regex>>,
           its: &mut std::collections::HashMap<u64, It>) -> Value {
    let name = op["op"].as_str().unwrap_or("");
    let r = op["r"].as_u64().unwrap_or(0);
    let it = op["it"].as_u64().unwrap_or(0);
    let s = cps_to_string(&op["s"]).unwrap_or_default();
    let get = |r: u64| -> Option<&'static Regex> { regs.read().unwrap().get(&r).copied() };
    regexml::verif_take_cutoffs();
    let res = guarded(|| match name {
        "compile" => {
            let pat = cps_to_string(&op["pat"]).unwrap_or_default();
            let flags = cps_to_string(&op["flags"]).unwrap_or_default();
            let c = if op["x"].as_bool().unwrap_or(true) { Regex::xpath(&pat, &flags) } else { Regex::xsd(&pat, &flags) };
            match c {
                Ok(re) => {
                    regs.write().unwrap().insert(r, Box::leak(Box::new(re)));
                    json!({"k":"ok"})
                }
                Err(e) => err_value(&e),
            }
        }
        "is_match" => match get(r) {
            Some(re) => json!({"k":"ok","v":re.is_match(&s)}),
            None => json!({"k":"noreg"}),
        },
        "replace" => match get(r) {
            Some(re) => match re.replace_all(&s, &cps_to_string(&op["repl"]).unwrap_or_default()) {
                Ok(v) => json!({"k":"ok","v":string_to_cps(&v)}),
                Err(e) => err_value(&e),
            },
            None => json!({"k":"noreg"}),
        },
        "tokenize" => match get(r) {
            Some(re) => match re.tokenize(&s) {
                Ok(t) => {
                    its.insert(it, It::Tok(Box::new(t)));
                    json!({"k":"ok"})
                }
                Err(e) => err_value(&e),
            },
            None => json!({"k":"noreg"}),
        },
        "analyze" => match get(r) {
            Some(re) => match re.analyze(&s) {
                Ok(a) => {
                    its.insert(it, It::Ana(Box::new(a)));
                    json!({"k":"ok"})
                }
                Err(e) => err_value(&e),
            },
            None => json!({"k":"noreg"}),
        },
        "next" => match its.get_mut(&it) {
            Some(It::Tok(t)) => match t.next() {
                Some(x) => json!({"k":"some","v":string_to_cps(&x)}),
                None => json!({"k":"none"}),
            },
            Some(It::Ana(a)) => match a.next() {
                Some(x) => json!({"k":"some","v":entry_value(&x)}),
                None => json!({"k":"none"}),
            },
            None => json!({"k":"noit"}),
        },
        "drop_it" => {
            its.remove(&it);
            json!({"k":"dropped"})
        }
        "drop_reg" => {
            // the Regex itself was leaked on purpose (iterators borrow it for 'static); forget the id
            regs.write().unwrap().remove(&r);
            json!({"k":"dropped"})
        }
        _ => json!({"k":"badjob"}),
    });
    let mut v = match res {
        Ok(v) => v,
        Err(p) => p,
    };
    let cut = regexml::verif_take_cutoffs();
    if cut != 0 {
        v["cut"] = json!(cut);
    }
    v
}

/// What the same call returns on a freshly compiled Regex (for an iterator step: the n-th item of a fresh
/// iterator), as the purity clause of C18 states it.
fn fresh_result(op: &Value, srcs: &std::collections::HashMap<u64, (String, String, bool)>,
                itinfo: &std::collections::HashMap<u64, (u64, String, String, usize)>) -> Option<Value> {
    let name = op["op"].as_str().unwrap_or("");
    let mk = |r: u64| -> Option<Regex> {
        let (p, f, x) = srcs.get(&r)?;
        (if *x { Regex::xpath(p, f) } else { Regex::xsd(p, f) }).ok()
    };
    let s = cps_to_string(&op["s"]).unwrap_or_default();
    let r = guarded(|| -> Option<Value> {
        Some(match name {
            "is_match" => json!({"k":"ok","v": mk(op["r"].as_u64()?)?.is_match(&s)}),
            "replace" => match mk(op["r"].as_u64()?)?.replace_all(&s, &cps_to_string(&op["repl"]).unwrap_or_default()) {
                Ok(v) => json!({"k":"ok","v":string_to_cps(&v)}),
                Err(e) => err_value(&e),
            },
            "tokenize" => match mk(op["r"].as_u64()?)?.tokenize(&s) {
                Ok(_) => json!({"k":"ok"}),
                Err(e) => err_value(&e),
            },
            "analyze" => match mk(op["r"].as_u64()?)?.analyze(&s) {
                Ok(_) => json!({"k":"ok"}),
                Err(e) => err_value(&e),
            },
            "next" => {
                let (r, kind, s, n) = itinfo.get(&op["it"].as_u64()?)?.clone();
                let re = mk(r)?;
                if kind == "tokenize" {
                    let mut it = re.tokenize(&s).ok()?;
                    let mut last = None;
                    for _ in 0..n {
                        last = it.next();
                    }
                    match last {
                        Some(x) => json!({"k":"some","v":string_to_cps(&x)}),
                        None => json!({"k":"none"}),
                    }
                } else {
                    let mut it = re.analyze(&s).ok()?;
                    let mut last = None;
                    for _ in 0..n {
                        last = it.next();
                    }
                    match last {
                        Some(x) => json!({"k":"some","v":entry_value(&x)}),
                        None => json!({"k":"none"}),
                    }
                }
            }
            _ => return None,
        })
    });
    regexml::verif_take_cutoffs();
    match r {
        Ok(v) => v,
        Err(p) => Some(p),
    }
}

/// A history of API calls on a pool of shared objects (C18): executed in order ("seq"), or from four
/// threads that share the Regex objects while each thread owns the iterators it opened ("mt").
fn run_history(job: &Value) -> Value {
    let id = job["id"].clone();
    let mut hist = job["hist"].as_array().cloned().unwrap_or_default();
    // register and iterator ids are reused by the histories after a drop: give every object its own key
    {
        let (mut cur_r, mut cur_it) = (std::collections::HashMap::new(), std::collections::HashMap::new());
        let mut fresh = 1000u64;
        for op in hist.iter_mut() {
            let name = op["op"].as_str().unwrap_or("").to_string();
            if name == "compile" {
                fresh += 1;
                cur_r.insert(op["r"].as_u64().unwrap_or(0), fresh);
            }
            if name == "tokenize" || name == "analyze" {
                fresh += 1;
                cur_it.insert(op["it"].as_u64().unwrap_or(0), fresh);
            }
            if let Some(r) = op.get("r").and_then(|r| r.as_u64()) {
                op["r"] = json!(cur_r.get(&r).copied().unwrap_or(0));
            }
            if let Some(i) = op.get("it").and_then(|i| i.as_u64()) {
                op["it"] = json!(cur_it.get(&i).copied().unwrap_or(0));
            }
        }
    }
    let regs = std::sync::RwLock::new(std::collections::HashMap::new());
    let mut res: Vec<Value> = vec![Value::Null; hist.len()];
    // sources of the registers and, per step of an iterator, which item of it the step asks for
    let mut srcs = std::collections::HashMap::new();
    let mut itinfo_at: Vec<std::collections::HashMap<u64, (u64, String, String, usize)>> = Vec::new();
    {
        let mut cur: std::collections::HashMap<u64, (u64, String, String, usize)> = std::collections::HashMap::new();
        for op in hist.iter() {
            let name = op["op"].as_str().unwrap_or("");
            if name == "compile" {
                srcs.insert(op["r"].as_u64().unwrap_or(0), (cps_to_string(&op["pat"]).unwrap_or_default(),
                            cps_to_string(&op["flags"]).unwrap_or_default(), op["x"].as_bool().unwrap_or(true)));
            }
            if name == "tokenize" || name == "analyze" {
                cur.insert(op["it"].as_u64().unwrap_or(0), (op["r"].as_u64().unwrap_or(0), name.to_string(),
                           cps_to_string(&op["s"]).unwrap_or_default(), 0));
            }
            if name == "next" {
                if let Some(e) = cur.get_mut(&op["it"].as_u64().unwrap_or(0)) {
                    e.3 += 1;
                }
            }
            itinfo_at.push(cur.clone());
        }
    }
    if job["mode"] == "mt" {
        // compile calls first (in order), then everything else from 4 threads behind a barrier;
        // ops on one iterator stay on one thread, in order
        let nthreads = 4usize;
        for (i, op) in hist.iter().enumerate() {
            if op["op"] == "compile" {
                res[i] = hist_op(op, &regs, &mut std::collections::HashMap::new());
            }
        }
        let mut owner: std::collections::HashMap<u64, usize> = std::collections::HashMap::new();
        let mut buckets: Vec<Vec<usize>> = vec![Vec::new(); nthreads];
        let mut rr = 0;
        for (i, op) in hist.iter().enumerate() {
            let name = op["op"].as_str().unwrap_or("");
            if name == "compile" || name == "drop_reg" {
                continue;
            }
            let t = if let Some(it) = op["it"].as_u64() {
                if name == "tokenize" || name == "analyze" {
                    rr += 1;
                    owner.insert(it, rr % nthreads);
                }
                *owner.get(&it).unwrap_or(&0)
            } else {
                rr += 1;
                rr % nthreads
            };
            buckets[t].push(i);
        }
        let barrier = std::sync::Barrier::new(nthreads);
        let outs: Vec<Vec<(usize, Value)>> = std::thread::scope(|s| {
            let hs: Vec<_> = buckets
                .iter()
                .map(|b| {
                    let (hist, regs, barrier) = (&hist, &regs, &barrier);
                    s.spawn(move || {
                        install_thread_hook();
                        let mut its = std::collections::HashMap::new();
                        barrier.wait();
                        b.iter().map(|&i| (i, hist_op(&hist[i], regs, &mut its))).collect::<Vec<_>>()
                    })
                })
                .collect();
            hs.into_iter().map(|h| h.join().unwrap_or_default()).collect()
        });
        for o in outs {
            for (i, v) in o {
                res[i] = v;
            }
        }
    } else {
        let mut its = std::collections::HashMap::new();
        for (i, op) in hist.iter().enumerate() {
            res[i] = hist_op(op, &regs, &mut its);
        }
    }
    // the purity clause: the same call on a freshly compiled Regex (computed after the history has run)
    let fresh: Vec<Value> = hist
        .iter()
        .enumerate()
        .map(|(i, op)| fresh_result(op, &srcs, &itinfo_at[i]).unwrap_or(Value::Null))
        .collect();
    json!({"id": id, "compile": {"k":"ok"}, "res": res, "fresh": fresh})
}

fn install_thread_hook() {}

pub fn run_job(job: &Value) -> Value {
    if job.get("hist").is_some() {
        return run_history(job);
    }
    let id = job["id"].clone();
    let pat = cps_to_string(&job["pat"]);
    let flags = cps_to_string(&job["flags"]);
    let (pat, flags) = match (pat, flags) {
        (Some(p), Some(f)) => (p, f),
        _ => return json!({"id":id,"compile":{"k":"badjob"},"res":[]}),
    };
    let xpath = job["x"].as_bool().unwrap_or(true);
    let unopt = job["unopt"].as_bool().unwrap_or(false);
    regexml::verif_take_cutoffs();
    let compiled = compile(&pat, &flags, xpath, unopt);
    let compile_cut = regexml::verif_take_cutoffs();
    match compiled {
        Err(e) => json!({"id":id,"compile":e,"res":[]}),
        Ok(re) => {
            let mut res = Vec::new();
            if let Some(calls) = job["calls"].as_array() {
                for c in calls {
                    res.push(run_call(&re, c));
                }
            }
            let mut out = json!({"id":id,"compile":{"k":"ok"},"res":res});
            // an optional second spelling of the pattern, run through the same calls (law pairs, C20)
            if let (Some(p2), Some(f2)) = (cps_to_string(&job["pat2"]), cps_to_string(&job["flags2"])) {
                regexml::verif_take_cutoffs();
                match compile(&p2, &f2, job["x2"].as_bool().unwrap_or(true), job["unopt2"].as_bool().unwrap_or(false)) {
                    Err(e) => {
                        out["compile2"] = e;
                        out["res2"] = json!([]);
                    }
                    Ok(re2) => {
                        let mut res2 = Vec::new();
                        if let Some(calls) = job["calls"].as_array() {
                            for c in calls {
                                res2.push(run_call(&re2, c));
                            }
                        }
                        out["compile2"] = json!({"k":"ok"});
                        out["res2"] = Value::Array(res2);
                    }
                }
            }
            if compile_cut != 0 {
                out["compile"]["cut"] = json!(compile_cut);
            }
            if job["facts"].as_bool().unwrap_or(false) {
                let f = guarded(|| re.verif_facts());
                out["facts"] = match f {
                    Ok(s) => serde_json::from_str(&s).unwrap_or(Value::Null),
                    Err(p) => p,
                };
            }
            out
        }
    }
}

pub fn main() -> i32 {
    unsafe {
        // die with the parent; cap memory (8 GB) and CPU (10 min) as a backstop against runaway cases
        libc::prctl(libc::PR_SET_PDEATHSIG, libc::SIGKILL);
        let mem = libc::rlimit { rlim_cur: 8 << 30, rlim_max: 8 << 30 };
        libc::setrlimit(libc::RLIMIT_AS, &mem);
        let cpu = libc::rlimit { rlim_cur: 600, rlim_max: 600 };
        libc::setrlimit(libc::RLIMIT_CPU, &cpu);
    }
    install_panic_hook();
    let stdin = std::io::stdin();
    let stdout = std::io::stdout();
    let mut out = stdout.lock();
    for line in stdin.lock().lines() {
        let line = match line {
            Ok(l) => l,
            Err(_) => break,
        };
        if line.is_empty() {
            continue;
        }
        let reply = match serde_json::from_str::<Value>(&line) {
            Ok(job) => run_job(&job),
            Err(_) => json!({"id":null,"compile":{"k":"badjob"},"res":[]}),
        };
        if writeln!(out, "{}", reply).is_err() || out.flush().is_err() {
            break;
        }
    }
    0
}
