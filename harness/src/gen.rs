//! Seeded random generators: structured patterns covering every grammar production, inputs biased
//! to the pattern's own alphabet, replacement strings, token-level mutations, garbage.
//! Nothing here is trusted: the oracle (TLC) parses the generated text itself.

pub struct Rng(pub u64);

impl Rng {
    pub fn new(seed: u64) -> Self {
        // the state must not be an affine function of the seed with the stream's own increment
        // (seed s+1 would replay seed s shifted by one draw): run the seed through the output mixer first
        let mut z = seed ^ 0xD6E8_FEB8_6659_FD93;
        z = (z ^ (z >> 30)).wrapping_mul(0xBF58476D1CE4E5B9);
        z = (z ^ (z >> 27)).wrapping_mul(0x94D049BB133111EB);
        Rng(z ^ (z >> 31))
    }
    pub fn next(&mut self) -> u64 {
        // splitmix64
        self.0 = self.0.wrapping_add(0x9E3779B97F4A7C15);
        let mut z = self.0;
        z = (z ^ (z >> 30)).wrapping_mul(0xBF58476D1CE4E5B9);
        z = (z ^ (z >> 27)).wrapping_mul(0x94D049BB133111EB);
        z ^ (z >> 31)
    }
    pub fn below(&mut self, n: usize) -> usize {
        if n == 0 {
            0
        } else {
            (self.next() % n as u64) as usize
        }
    }
    pub fn chance(&mut self, percent: usize) -> bool {
        self.below(100) < percent
    }
    pub fn pick<'a, T>(&mut self, xs: &'a [T]) -> &'a T {
        &xs[self.below(xs.len())]
    }
}

#[derive(Clone)]
pub struct Profile {
    pub name: &'static str,
    pub alphabet: Vec<char>,
    pub extra_input: Vec<char>,
    pub classes: bool,
    pub escapes: bool,
    pub cats: bool,
    pub groups: bool,
    pub brefs: bool,
    pub anchors: bool,
    pub lazy: bool,
    pub counted: bool,
    pub nullable_loops: bool,
    pub max_depth: usize,
    pub flagsets: Vec<&'static str>,
    pub xsd_percent: usize,
    pub max_input: usize,
    pub repls: Vec<&'static str>,
    pub random_repl: bool,
}

impl Profile {
    pub fn by_name(name: &str) -> Profile {
        let base = Profile {
            name: "general",
            alphabet: vec!['a', 'b', 'c'],
            extra_input: vec!['x'],
            classes: true,
            escapes: true,
            cats: false,
            groups: true,
            brefs: true,
            anchors: true,
            lazy: true,
            counted: true,
            nullable_loops: true,
            max_depth: 3,
            flagsets: vec!["", "", "i", "m", "s", "ms", "im", "is", "ims"],
            xsd_percent: 0,
            max_input: 8,
            repls: vec!["[$0]"],
            random_repl: false,
        };
        match name {
            "general" => base,
            "spans" => Profile { name: "spans", brefs: false, repls: vec!["[$0]"], ..base },
            "astral" => Profile {
                name: "astral",
                alphabet: vec!['a', '\u{10400}', '\u{301}', 'é'],
                extra_input: vec!['\u{10428}', 'b'],
                brefs: false,
                flagsets: vec!["", "s"],
                xsd_percent: 30,
                ..base
            },
            "groups" => Profile {
                name: "groups",
                repls: vec!["<$1|$2|$3>", "$2$1", "$1$10$11$12|$9"],
                max_depth: 4,
                flagsets: vec!["", "", "s"],
                ..base
            },
            "anchors" => Profile {
                name: "anchors",
                alphabet: vec!['a', '\n', 'b'],
                extra_input: vec!['\r', '\n'],
                classes: false,
                brefs: false,
                flagsets: vec!["", "m", "s", "ms"],
                ..base
            },
            "case" => Profile {
                name: "case",
                alphabet: vec!['a', 'A', 'b', 'B', '1', 'é', 'É', 'λ', 'Λ', 'б', 'Б', '\u{10428}', '\u{10400}', ' '],
                extra_input: vec!['\n', '-'],
                flagsets: vec!["i", "i", "", "is", "im"],
                cats: true,
                ..base
            },
            "mlgroups" => Profile {
                name: "mlgroups",
                alphabet: vec!['a', 'b', '\n'],
                extra_input: vec!['\n', 'c'],
                classes: false,
                brefs: false,
                repls: vec!["[$1|$2|$3]", "$2-$1"],
                flagsets: vec!["m", "m", "ms", ""],
                max_depth: 3,
                ..base
            },
            "brefs" => Profile { name: "brefs", alphabet: vec!['a', 'b'], flagsets: vec!["", "", "i"], max_depth: 4, ..base },
            "loops" => Profile {
                name: "loops",
                alphabet: vec!['a', 'b'],
                extra_input: vec!['c', '\n'],
                classes: false,
                flagsets: vec!["", "m"],
                ..base
            },
            "repl" => Profile {
                name: "repl",
                alphabet: vec!['a', 'b', 'c', 'A', 'B'],
                random_repl: true,
                repls: vec![],
                flagsets: vec!["", "", "q", "qi", "i"],
                ..base
            },
            "dialect" => Profile { name: "dialect", xsd_percent: 50, flagsets: vec!["", "i", "s", "x"], ..base },
            "classes" => Profile {
                name: "classes",
                alphabet: vec!['a', 'b', 'z', '0', '-', '^', ']', '\u{3b1}', '\u{10400}'],
                cats: true,
                brefs: false,
                anchors: false,
                max_depth: 2,
                ..base
            },
            _ => base,
        }
    }
}

const META_TOP: &[char] = &['.', '\\', '?', '*', '+', '{', '}', '(', ')', '|', '[', ']', '^', '$'];
const CATS: &[&str] = &[
    "L", "Lu", "Ll", "Lt", "Lm", "Lo", "M", "Mn", "Mc", "Me", "N", "Nd", "Nl", "No", "P", "Pc", "Pd", "Ps", "Pe", "Pi",
    "Pf", "Po", "Z", "Zs", "Zl", "Zp", "S", "Sm", "Sc", "Sk", "So", "C", "Cc", "Cf", "Co", "Cn",
];
const BLOCKS: &[&str] = &["BasicLatin", "Greek", "GreekandCoptic", "Latin-1Supplement", "Cyrillic", "Deseret", "PrivateUse"];

pub struct PatGen<'a> {
    pub rng: &'a mut Rng,
    pub p: &'a Profile,
    opened: usize,
    closed: Vec<usize>,
    xsd: bool,
}

impl<'a> PatGen<'a> {
    pub fn new(rng: &'a mut Rng, p: &'a Profile, xsd: bool) -> Self {
        PatGen { rng, p, opened: 0, closed: Vec::new(), xsd }
    }

    fn lit(&mut self) -> char {
        *self.rng.pick(&self.p.alphabet)
    }

    fn esc_top(&self, c: char, out: &mut String) {
        match c {
            '\n' => out.push_str("\\n"),
            '\r' => out.push_str("\\r"),
            '\t' => out.push_str("\\t"),
            '^' | '$' if self.xsd => out.push(c),
            c if META_TOP.contains(&c) => {
                out.push('\\');
                out.push(c)
            }
            c => out.push(c),
        }
    }

    fn esc_cls(&self, c: char, out: &mut String) {
        match c {
            '\n' => out.push_str("\\n"),
            '\r' => out.push_str("\\r"),
            '\t' => out.push_str("\\t"),
            '\\' | '[' | ']' | '-' | '^' => {
                out.push('\\');
                out.push(c)
            }
            c => out.push(c),
        }
    }

    fn class_escape(&mut self, out: &mut String) {
        if self.p.cats && self.rng.chance(50) {
            let neg = self.rng.chance(30);
            out.push_str(if neg { "\\P{" } else { "\\p{" });
            if self.rng.chance(75) {
                out.push_str(*self.rng.pick(CATS));
            } else {
                out.push_str("Is");
                out.push_str(*self.rng.pick(BLOCKS));
            }
            out.push('}');
        } else {
            out.push('\\');
            out.push(*self.rng.pick(&['d', 'D', 's', 'S', 'w', 'W', 'i', 'I', 'c', 'C']));
        }
    }

    fn class_expr(&mut self, depth: usize, out: &mut String) {
        out.push('[');
        if self.rng.chance(30) {
            out.push('^');
        }
        if self.rng.chance(8) {
            out.push('-'); // literal hyphen first
        }
        let n = 1 + self.rng.below(3);
        for _ in 0..n {
            match self.rng.below(10) {
                0..=4 => {
                    let c = self.lit();
                    self.esc_cls(c, out);
                }
                5..=7 => {
                    let (mut a, mut b) = (self.lit(), self.lit());
                    if a > b {
                        std::mem::swap(&mut a, &mut b);
                    }
                    if a == '-' || b == '-' {
                        self.esc_cls('a', out);
                    } else {
                        self.esc_cls(a, out);
                        out.push('-');
                        self.esc_cls(b, out);
                    }
                }
                _ => {
                    if self.p.escapes {
                        self.class_escape(out)
                    } else {
                        let c = self.lit();
                        self.esc_cls(c, out);
                    }
                }
            }
        }
        if depth > 0 && self.rng.chance(20) {
            out.push('-');
            self.class_expr(depth - 1, out);
        } else if self.rng.chance(6) {
            out.push('-'); // literal hyphen last
        }
        out.push(']');
    }

    fn atom(&mut self, depth: usize, out: &mut String) -> bool {
        // returns whether the atom can match empty (rough; only used to bias loop bodies)
        let roll = self.rng.below(100);
        if roll < 40 || depth == 0 && roll < 70 {
            let c = self.lit();
            self.esc_top(c, out);
            false
        } else if roll < 48 {
            out.push('.');
            false
        } else if roll < 60 && self.p.classes {
            self.class_expr(2, out);
            false
        } else if roll < 66 && self.p.escapes {
            self.class_escape(out);
            false
        } else if roll < 72 && self.p.anchors && !self.xsd {
            out.push(if self.rng.chance(50) { '^' } else { '$' });
            true
        } else if roll < 78 && self.p.brefs && !self.xsd && !self.closed.is_empty() {
            let n = *self.rng.pick(&self.closed.clone());
            out.push('\\');
            out.push_str(&n.to_string());
            true
        } else if depth > 0 && self.p.groups {
            let capturing = self.xsd || self.rng.chance(60);
            if capturing {
                self.opened += 1;
                let n = self.opened;
                out.push('(');
                let e = self.regexp(depth - 1, out);
                out.push(')');
                self.closed.push(n);
                e
            } else {
                out.push_str("(?:");
                let e = self.regexp(depth - 1, out);
                out.push(')');
                e
            }
        } else {
            let c = self.lit();
            self.esc_top(c, out);
            false
        }
    }

    fn piece(&mut self, depth: usize, out: &mut String) -> bool {
        let mut tmp = String::new();
        let save = (self.opened, self.closed.clone());
        let empty = self.atom(depth, &mut tmp);
        if self.rng.chance(45) {
            if empty && !self.p.nullable_loops {
                out.push_str(&tmp);
                return empty;
            }
            let _ = save;
            out.push_str(&tmp);
            let q = self.rng.below(if self.p.counted { 9 } else { 3 });
            let mut min0 = false;
            match q {
                0 => {
                    out.push('?');
                    min0 = true
                }
                1 => {
                    out.push('*');
                    min0 = true
                }
                2 => out.push('+'),
                3 => out.push_str("{2}"),
                4 => out.push_str("{1,2}"),
                5 => {
                    out.push_str("{0,2}");
                    min0 = true
                }
                6 => out.push_str("{2,}"),
                7 => {
                    out.push_str("{0}");
                    min0 = true
                }
                _ => out.push_str("{1,3}"),
            }
            if self.p.lazy && !self.xsd && self.rng.chance(30) {
                out.push('?');
            }
            empty || min0
        } else {
            out.push_str(&tmp);
            empty
        }
    }

    fn branch(&mut self, depth: usize, out: &mut String) -> bool {
        let n = if self.rng.chance(5) { 0 } else { 1 + self.rng.below(3) };
        let mut empty = true;
        for _ in 0..n {
            let e = self.piece(depth, out);
            empty = empty && e;
        }
        empty
    }

    pub fn regexp(&mut self, depth: usize, out: &mut String) -> bool {
        let n = if self.rng.chance(30) { 2 + self.rng.below(2) } else { 1 };
        let mut empty = false;
        for i in 0..n {
            if i > 0 {
                out.push('|');
            }
            let e = self.branch(depth, out);
            empty = empty || e;
        }
        empty
    }
}

pub fn gen_pattern(rng: &mut Rng, p: &Profile, xsd: bool) -> String {
    let mut out = String::new();
    let depth = 1 + rng.below(p.max_depth);
    let mut g = PatGen::new(rng, p, xsd);
    g.regexp(depth, &mut out);
    out
}

pub fn gen_input(rng: &mut Rng, p: &Profile, pat: &str) -> String {
    let mut pool: Vec<char> = p.alphabet.clone();
    pool.extend(p.extra_input.iter());
    for c in pat.chars() {
        if c.is_alphanumeric() {
            pool.push(c);
        }
    }
    let n = rng.below(p.max_input + 1);
    (0..n).map(|_| *rng.pick(&pool)).collect()
}

pub fn gen_repl(rng: &mut Rng) -> String {
    let toks = ["$0", "$1", "$2", "$9", "$10", "$12", "\\$", "\\\\", "x", "1", "0", "$", "\\", "-", "$3"];
    let n = rng.below(5);
    let mut s = String::new();
    for _ in 0..n {
        s.push_str(*rng.pick(&toks));
    }
    s
}

/// token-level mutation of a pattern: drop / duplicate / swap adjacent / truncate / insert a metacharacter
pub fn mutate(rng: &mut Rng, pat: &str) -> String {
    let mut cs: Vec<char> = pat.chars().collect();
    if cs.is_empty() {
        return "(".to_string();
    }
    let i = rng.below(cs.len());
    match rng.below(5) {
        0 => {
            cs.remove(i);
        }
        1 => {
            let c = cs[i];
            cs.insert(i, c);
        }
        2 => {
            if i + 1 < cs.len() {
                cs.swap(i, i + 1);
            }
        }
        3 => cs.truncate(i),
        _ => {
            let m = *rng.pick(&['(', ')', '[', ']', '{', '}', '*', '+', '?', '|', '\\', '-', '^', '$', ',', '1']);
            cs.insert(i, m);
        }
    }
    cs.into_iter().collect()
}

pub fn garbage(rng: &mut Rng, maxlen: usize) -> String {
    let pool: Vec<char> = "()[]{}*+?|\\.-^$,:0123456789abpPIsdwLu \n\t".chars().collect();
    let uni = ['\u{0}', '\u{d7ff}', '\u{e000}', '\u{fffd}', '\u{10000}', '\u{10ffff}', '\u{301}', '\u{212a}', 'é', '\u{c}'];
    let n = rng.below(maxlen + 1);
    (0..n)
        .map(|_| if rng.chance(12) { *rng.pick(&uni) } else { *rng.pick(&pool) })
        .collect()
}
