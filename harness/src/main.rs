//! vharness: drives the real regexml code for the verification checks.
//!   worker  - executes jobs (one JSON line in, one JSON line out) under catch_unwind
//!   replay  - reads TLC-generated behaviours on stdin, runs them through a pool of workers with
//!             parent-side CPU-time deadlines, compares every call with the spec's expectation
//!   record  - seeded random drivers; writes ndjson traces of real executions for TLC to validate
//!   sweep   - class-membership sweeps over the Unicode scalar values (C09 / C10)
mod gen;
mod pool;
mod record;
mod replay;
mod sweep;
mod worker;

fn main() {
    let args: Vec<String> = std::env::args().collect();
    let cmd = args.get(1).map(|s| s.as_str()).unwrap_or("");
    let rest = &args[2.min(args.len())..];
    let code = match cmd {
        "worker" => worker::main(),
        "replay" => replay::main(rest),
        "record" => record::main(rest),
        "sweep" => sweep::main(rest),
        _ => {
            eprintln!("usage: vharness worker|replay|record|sweep ...");
            2
        }
    };
    std::process::exit(code);
}

pub fn arg<'a>(args: &'a [String], name: &str) -> Option<&'a str> {
    args.iter()
        .position(|a| a == name)
        .and_then(|i| args.get(i + 1))
        .map(|s| s.as_str())
}

pub fn cps_to_string(v: &serde_json::Value) -> Option<String> {
    let arr = v.as_array()?;
    let mut s = String::new();
    for x in arr {
        s.push(char::from_u32(x.as_u64()? as u32)?);
    }
    Some(s)
}

pub fn string_to_cps(s: &str) -> serde_json::Value {
    serde_json::Value::Array(s.chars().map(|c| serde_json::Value::from(c as u32)).collect())
}
