//! record: seeded random drivers.  The cases are executed by worker subprocesses whose regexml has the
//! tracer hook switched on (REGEXML_VERIF_TRACE), so the trace is written by the code under test at the
//! return of every public call; this parent only generates jobs, enforces deadlines and notes faults
//! (a call that never returned cannot log itself).
use crate::gen::{self, Profile, Rng};
use crate::{arg, pool, string_to_cps};
use serde_json::{json, Value};
use std::io::Write;
use std::sync::Mutex;

/// the code points the trace specification evaluates class sets on: those written in the pattern, TAB LF CR and `x`
pub fn probe_of(pat: &Value) -> Vec<u64> {
    let mut p: Vec<u64> = pat.as_array().map(|a| a.iter().filter_map(|c| c.as_u64()).collect()).unwrap_or_default();
    // ... and their other-case forms (under flag i the specification also asks about those)
    let cased: Vec<u64> = p
        .iter()
        .filter_map(|c| char::from_u32(*c as u32))
        .flat_map(|c| c.to_lowercase().chain(c.to_uppercase()).collect::<Vec<char>>())
        .map(|c| c as u64)
        .collect();
    p.extend(cased);
    p.extend_from_slice(&[9, 10, 13, 120, 88]);
    p.sort();
    p.dedup();
    p
}

/// class sets are the subject of C09; in the facts events a set of more than 64 intervals is cut down to its
/// members among the probe code points (exact on every code point FactsTrace.tla asks about)
pub fn strip_sets(v: &Value, probe: &[u64]) -> Value {
    match v {
        Value::Object(o) => {
            let mut m = serde_json::Map::new();
            for (k, x) in o {
                if k == "set" && o.get("k") == Some(&json!("class")) && o.len() == 2 {
                    let iv = x.as_array().cloned().unwrap_or_default();
                    if iv.len() <= 64 {
                        m.insert(k.clone(), x.clone());
                    } else {
                        let has = |c: u64| iv.iter().any(|r| r[0].as_u64().unwrap_or(1) <= c && c <= r[1].as_u64().unwrap_or(0));
                        let kept: Vec<Value> = probe.iter().filter(|c| has(**c)).map(|c| json!([c, c])).collect();
                        m.insert(k.clone(), Value::Array(kept));
                        m.insert("probe".to_string(), json!(true));
                    }
                } else {
                    m.insert(k.clone(), strip_sets(x, probe));
                }
            }
            Value::Object(m)
        }
        Value::Array(a) => Value::Array(a.iter().map(|x| strip_sets(x, probe)).collect()),
        x => x.clone(),
    }
}

fn job(id: u64, pat: &str, flags: &str, xpath: bool, inputs: &[String], repls: &[String], unopt: bool) -> Value {
    let mut calls = Vec::new();
    for s in inputs {
        let s = string_to_cps(s);
        calls.push(json!({"op":"is_match","s":s}));
        for r in repls {
            calls.push(json!({"op":"replace","s":s,"r":string_to_cps(r)}));
        }
        calls.push(json!({"op":"tokenize","s":s}));
        calls.push(json!({"op":"analyze","s":s}));
    }
    json!({"id":id,"pat":string_to_cps(pat),"flags":string_to_cps(flags),"x":xpath,"unopt":unopt,"calls":calls,
           "pat_s":pat,"flags_s":flags})
}

pub fn main(args: &[String]) -> i32 {
    let profile = arg(args, "--profile").unwrap_or("general").to_string();
    let mode = arg(args, "--mode").unwrap_or("cases").to_string();
    let seed: u64 = arg(args, "--seed").and_then(|s| s.parse().ok()).unwrap_or(1);
    let count: u64 = arg(args, "--count").and_then(|s| s.parse().ok()).unwrap_or(1000);
    let out = arg(args, "--out").unwrap_or("rec").to_string();
    let nworkers: usize = arg(args, "--workers").and_then(|s| s.parse().ok()).unwrap_or(8);
    let with_unopt = args.iter().any(|a| a == "--unopt");
    let trace_dir = format!("{}/trace", out);
    let _ = std::fs::remove_dir_all(&trace_dir);
    std::fs::create_dir_all(&trace_dir).expect("trace dir");
    std::env::set_var("REGEXML_VERIF_TRACE", &trace_dir);

    let p = Profile::by_name(&profile);
    let mut rng = Rng::new(seed ^ (profile.len() as u64) << 32 ^ (mode.len() as u64) << 40);
    let mut jobs = Vec::new();
    let mut id = 0;
    let mut samples = Vec::new();
    let bounds_bodies = ["a", "(a)", "(?:a|b)", "[ab]", "(?:a|bb)", "(?:a?)", "(a|^)", "(?:^|a)", "(a)\\1", ".", "(?:ab)"];
    let bounds_nums = ["0", "1", "2", "255", "65535", "65536", "2147483647", "2147483648", "4294967295", "4294967296",
        "9223372036854775807", "9223372036854775808", "18446744073709551614", "18446744073709551615",
        "18446744073709551616", "99999999999999999999", "340282366920938463463374607431768211456", "007", "00000000000000000000000000000001"];
    for iter_k in 0..count {
        let xsd = rng.chance(p.xsd_percent);
        let mut pat = gen::gen_pattern(&mut rng, &p, xsd);
        match mode.as_str() {
            "mutants" => {
                let n = 1 + rng.below(2);
                for _ in 0..n {
                    pat = gen::mutate(&mut rng, &pat);
                }
            }
            "garbage" => pat = gen::garbage(&mut rng, 24),
            "names" => {
                // category and block names: valid ones, every kind of near miss
                let letters: Vec<char> = "LMNPZSCulotmcdeksifpnaIX".chars().collect();
                let blocks = ["BasicLatin", "Greek", "GreekandCoptic", "Latin-1Supplement", "LatinExtended-A", "Cyrillic",
                    "Deseret", "PrivateUse", "CombiningMarksforSymbols", "HighSurrogates", "CJKUnifiedIdeographs", "Tags",
                    "SupplementaryPrivateUseArea-B", "Specials", "Arrows"];
                let neg = if rng.chance(30) { 'P' } else { 'p' };
                pat = match rng.below(6) {
                    0 => format!("\\{}{{{}}}", neg, rng.pick(&letters)),
                    1 | 2 => format!("\\{}{{{}{}}}", neg, rng.pick(&letters), rng.pick(&letters)),
                    3 => format!("\\{}{{Is{}}}", neg, rng.pick(&blocks)),
                    4 => {
                        let b: Vec<char> = rng.pick(&blocks).chars().collect();
                        let i = rng.below(b.len());
                        let mut m = b.clone();
                        match rng.below(4) {
                            0 => {
                                m.remove(i);
                            }
                            1 => m[i] = if m[i].is_uppercase() { m[i].to_ascii_lowercase() } else { m[i].to_ascii_uppercase() },
                            2 => m.insert(i, ' '),
                            _ => m.push('s'),
                        }
                        format!("\\{}{{Is{}}}", neg, m.into_iter().collect::<String>())
                    }
                    _ => format!("[\\{}{{{}{}}}a]", neg, rng.pick(&letters), rng.pick(&letters)),
                };
            }
            "escpairs" => {
                // the same category / block / multi-character escape twice in one pattern, in both polarities
                let cats = ["L", "Lu", "Ll", "Lt", "Lm", "Lo", "M", "Mn", "Mc", "Me", "N", "Nd", "Nl", "No", "P", "Pc", "Pd", "Ps",
                    "Pe", "Pi", "Pf", "Po", "Z", "Zs", "Zl", "Zp", "S", "Sm", "Sc", "Sk", "So", "C", "Cc", "Cf", "Co", "Cn",
                    "IsBasicLatin", "IsGreek", "IsLatin-1Supplement", "IsCyrillic", "IsDeseret", "IsCJKUnifiedIdeographs"];
                let k = iter_k as usize;
                let (pos, neg) = if k % 5 == 4 {
                    let e = *rng.pick(&['d', 'w', 's', 'i', 'c']);
                    (format!("\\{}", e), format!("\\{}", e.to_ascii_uppercase()))
                } else {
                    let c = cats[(k / 5) % cats.len()];
                    (format!("\\p{{{}}}", c), format!("\\P{{{}}}", c))
                };
                pat = match (k / 7) % 9 {
                    0 => format!("{}{}", pos, neg),
                    1 => format!("{}{}", neg, pos),
                    2 => format!("[{}-[{}]]", pos, neg),
                    3 => format!("[^{}]{}", pos, pos),
                    4 => format!("({})({})", neg, pos),
                    5 => format!("{}+{}+{}", pos, neg, pos),
                    6 => format!("^[{}a]{}[^{}]$", neg, pos, neg),
                    7 => format!("{}|{}{}", neg, pos, pos),
                    _ => format!("[{}-[{}]]{}", neg, pos, neg),
                };
            }
            "bounds" => {
                // every (body, bound, form) combination is visited in turn; context and second bound are random
                let k = iter_k as usize;
                let body = bounds_bodies[k % bounds_bodies.len()];
                let n = bounds_nums[(k / bounds_bodies.len()) % bounds_nums.len()];
                let m = *rng.pick(&bounds_nums);
                let q = match (k / (bounds_bodies.len() * bounds_nums.len())) % 5 {
                    0 => format!("{{{}}}", n),
                    1 => format!("{{{},}}", n),
                    2 => format!("{{0,{}}}", n),
                    3 => format!("{{{},{}}}", n, m),
                    _ => format!("{{1,{}}}", n),
                };
                let lazy = if rng.chance(30) { "?" } else { "" };
                let tail = *rng.pick(&["", "a", "$", "b", "\\1", "|x", "|"]);
                let head = *rng.pick(&["", "^", "x?", "(x)?", "x|", "^x|^", "(?:y|"]);
                let tail = if head == "(?:y|" { ")z" } else { tail };
                pat = format!("{}{}{}{}{}", head, body, q, lazy, tail);
            }
            _ => {}
        }
        let flags = if mode == "garbage" && rng.chance(30) {
            gen::garbage(&mut rng, 4)
        } else {
            rng.pick(&p.flagsets).to_string()
        };
        let ninputs = 3;
        let mut inputs: Vec<String> = (0..ninputs).map(|_| gen::gen_input(&mut rng, &p, &pat)).collect();
        if mode == "garbage" {
            inputs[0] = gen::garbage(&mut rng, 24);
        }
        if mode == "escpairs" {
            let palette: Vec<char> = "aB1 _-\u{e9}\u{3a3}\u{436}\u{4e2d}\u{10400}+.\n\u{20ac}\u{300}\u{2160}\u{ad}\u{e000}\u{378}(\u{ab}".chars().collect();
            inputs = (0..4).map(|_| (0..(1 + rng.below(3))).map(|_| *rng.pick(&palette)).collect::<String>()).collect();
        }
        if mode == "bounds" {
            inputs = vec!["".to_string(), "a".to_string(), "xxaaa".to_string(), "aaaaaaaaab".to_string()];
        }
        let mut repls: Vec<String> = p.repls.iter().map(|s| s.to_string()).collect();
        if p.random_repl || mode == "garbage" {
            repls.push(gen::gen_repl(&mut rng));
            repls.push(gen::gen_repl(&mut rng));
        }
        if repls.is_empty() {
            repls.push("[$0]".to_string());
        }
        id += 1;
        if samples.len() < 5 {
            samples.push(json!({"pattern": pat, "flags": flags, "xsd": xsd, "inputs": inputs, "repls": repls}));
        }
        if mode == "threads" {
            // a history on two shared Regex objects, executed from 4 threads (C18); the tracer hook logs every call
            // the second object: another pattern, or (one job in four) the SAME text compiled under the other dialect
            let same_text = rng.chance(25);
            let pat2 = if same_text { pat.clone() } else { gen::gen_pattern(&mut rng, &p, false) };
            let x2 = if same_text { xsd } else { true };
            let mut hist = vec![
                json!({"op":"compile","r":1,"pat":string_to_cps(&pat),"flags":string_to_cps(&flags),"x":!xsd}),
                json!({"op":"compile","r":2,"pat":string_to_cps(&pat2),"flags":string_to_cps(&flags),"x":x2}),
            ];
            let mut itn = 0;
            for _ in 0..(6 + rng.below(8)) {
                let r = 1 + rng.below(2);
                let s = string_to_cps(rng.pick(&inputs[..]).as_str());
                match rng.below(4) {
                    0 => hist.push(json!({"op":"is_match","r":r,"s":s})),
                    1 => hist.push(json!({"op":"replace","r":r,"s":s,"repl":string_to_cps(rng.pick(&repls[..]).as_str())})),
                    k => {
                        itn += 1;
                        hist.push(json!({"op": if k == 2 {"tokenize"} else {"analyze"},"r":r,"it":itn,"s":s}));
                        for _ in 0..rng.below(5) {
                            hist.push(json!({"op":"next","it":itn}));
                        }
                    }
                }
            }
            // interleave: a few more steps on iterators opened earlier
            for it in 1..=itn {
                for _ in 0..rng.below(4) {
                    hist.push(json!({"op":"next","it":it}));
                }
            }
            jobs.push(json!({"id":id,"hist":hist,"mode":"mt","pat_s":pat,"flags_s":flags,"x":!xsd,"calls":[]}));
            continue;
        }
        if mode == "facts" {
            // only the compile-time facts are wanted (validated by FactsTrace.tla)
            let mut j = job(id, &pat, &flags, !xsd, &[], &repls, false);
            j["facts"] = json!(true);
            jobs.push(j);
            continue;
        }
        let mut j = job(id, &pat, &flags, !xsd, &inputs, &repls, false);
        if with_unopt {
            // the same source also compiled with every optimisation off, run through the same calls (C08)
            j["pat2"] = j["pat"].clone();
            j["flags2"] = j["flags"].clone();
            j["x2"] = j["x"].clone();
            j["unopt2"] = json!(true);
        }
        jobs.push(j);
    }
    let njobs = jobs.len();
    let faults = Mutex::new(std::fs::File::create(format!("{}/faults.ndjson", out)).expect("faults file"));
    let nfaults = Mutex::new(0u64);
    let facts_out = Mutex::new(std::fs::File::create(format!("{}/facts.ndjson", out)).expect("facts file"));
    pool::process(nworkers, jobs.into_iter(), |job, reply| {
        if let Some(fa) = reply.get("facts") {
            if fa.get("minlen").is_some() {
                let opt = |v: &Value| if v.is_null() { json!({"some": false, "v": []}) } else { json!({"some": true, "v": v}) };
                let probe = probe_of(&job["pat"]);
                let ev = json!({"ev":"facts","pat":job["pat"],"flags":job["flags"],"xpath":job["x"],
                                "facts":{"prefix":opt(&fa["prefix"]),"initial":opt(&fa["initial"]),"minlen":fa["minlen"],
                                         "hasbol":fa["hasbol"],"pre":strip_sets(&fa["pre"], &probe),"ops":strip_sets(&fa["ops"], &probe)}});
                let _ = writeln!(facts_out.lock().unwrap(), "{}", ev);
            }
        }
        // faults (hang / abort) were attributed call by call by the pool
        let mut recs = Vec::new();
        let ck = reply["compile"]["k"].as_str().unwrap_or("");
        if ck == "hang" || ck == "abort" {
            recs.push(json!({"ev":"fault","kind":ck,"call":"compile","pat_s":job["pat_s"],"flags":job["flags_s"],
                             "x":job["x"],"s_s":"","unopt":job["unopt"]}));
        }
        if let Some(res) = reply["res"].as_array() {
            for (i, r) in res.iter().enumerate() {
                let k = r["k"].as_str().unwrap_or("");
                if k == "hang" || k == "abort" {
                    let call = &job["calls"][i];
                    recs.push(json!({"ev":"fault","kind":k,"call":call["op"],"pat_s":job["pat_s"],
                                     "flags":job["flags_s"],"x":job["x"],
                                     "s_s":crate::cps_to_string(&call["s"]).unwrap_or_default(),"unopt":job["unopt"]}));
                }
            }
        }
        if job.get("hist").is_some() {
            // purity (C18), decided on the real code alone: every call of the history against the same call on a
            // freshly compiled Regex
            if let (Some(a), Some(b), Some(h)) = (reply["res"].as_array(), reply["fresh"].as_array(), job["hist"].as_array()) {
                for (i, (ra, rb)) in a.iter().zip(b.iter()).enumerate() {
                    if rb.is_null() || ra["k"] == "panic" {
                        continue;
                    }
                    let strip = |v: &Value| {
                        let mut v = v.clone();
                        if let Some(o) = v.as_object_mut() {
                            o.remove("cut");
                        }
                        v
                    };
                    if strip(ra) != strip(rb) {
                        recs.push(json!({"ev":"fault","kind":"impure","call":format!("{}#{}", h[i]["op"].as_str().unwrap_or(""), i),
                                         "pat_s":job["pat_s"],"flags":job["flags_s"],"x":job["x"],
                                         "s_s":crate::cps_to_string(&h[i]["s"]).unwrap_or_default(),
                                         "expected":rb,"observed":ra}));
                    }
                }
            }
        }
        if job.get("unopt2").is_some() {
            // optimised vs unoptimised: every call must return exactly the same
            let strip = |v: &Value| {
                let mut v = v.clone();
                if let Some(o) = v.as_object_mut() {
                    o.remove("cut");
                }
                v
            };
            if strip(&reply["compile"]) != strip(&reply["compile2"]) {
                recs.push(json!({"ev":"fault","kind":"optdiff","call":"compile","pat_s":job["pat_s"],"flags":job["flags_s"],
                                 "x":job["x"],"s_s":"","expected":reply["compile"],"observed":reply["compile2"]}));
            } else if let (Some(a), Some(b)) = (reply["res"].as_array(), reply["res2"].as_array()) {
                for (i, (ra, rb)) in a.iter().zip(b.iter()).enumerate() {
                    if strip(ra) != strip(rb) {
                        let call = &job["calls"][i];
                        let cut = ra["cut"].as_u64().unwrap_or(0) | rb["cut"].as_u64().unwrap_or(0);
                        recs.push(json!({"ev":"fault","kind":"optdiff","call":call["op"],"pat_s":job["pat_s"],
                                         "flags":job["flags_s"],"x":job["x"],"cut":cut,
                                         "s_s":crate::cps_to_string(&call["s"]).unwrap_or_default(),
                                         "expected":ra,"observed":rb}));
                    }
                }
            }
        }
        if !recs.is_empty() {
            let mut f = faults.lock().unwrap();
            for r in recs {
                let _ = writeln!(f, "{}", r);
                *nfaults.lock().unwrap() += 1;
            }
        }
    });
    let stats = json!({"profile": profile, "mode": mode, "seed": seed, "jobs": njobs, "samples": samples,
                       "faults": *nfaults.lock().unwrap(),
                       "skipped_jobs": pool::SKIPPED_JOBS.load(std::sync::atomic::Ordering::SeqCst)});
    std::fs::write(format!("{}/record_stats.json", out), serde_json::to_string_pretty(&stats).unwrap()).expect("stats");
    0
}
