pub fn main(_a: &[String]) -> i32 { 2 }
