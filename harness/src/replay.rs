//! replay: TLC-generated behaviours (stdin) -> real code -> comparison with the spec's expectation.
//! Lines of the form  <<"B", "...json...">>  are behaviours; every other line is TLC's own output
//! and is copied to stdout.  Result: --out <stats.json>, --viol <violations.ndjson>.
use crate::{arg, pool};
use serde_json::{json, Map, Value};
use std::collections::BTreeMap;
use std::io::{BufRead, Write};
use std::sync::Mutex;

pub fn unescape_tla(s: &str) -> String {
    // a TLA+ string literal as printed by TLC: \" and \\ are the only escapes that occur
    let mut out = String::with_capacity(s.len());
    let mut it = s.chars();
    while let Some(c) = it.next() {
        if c == '\\' {
            if let Some(n) = it.next() {
                out.push(n);
            }
        } else {
            out.push(c);
        }
    }
    out
}

pub fn parse_p_line(line: &str) -> Option<Value> {
    let rest = line.strip_prefix("<<\"P\", \"")?;
    let body = rest.strip_suffix("\">>")?;
    serde_json::from_str(&unescape_tla(body)).ok()
}

pub fn parse_b_line(line: &str) -> Option<Value> {
    let rest = line.strip_prefix("<<\"B\", \"")?;
    let body = rest.strip_suffix("\">>")?;
    serde_json::from_str(&unescape_tla(body)).ok()
}

#[derive(Default)]
pub struct Stats {
    pub behaviours: u64,
    pub cases: u64,
    pub calls: u64,
    pub compared: BTreeMap<String, u64>,
    pub mismatches: BTreeMap<String, u64>,
    pub unspec_cases: u64,
    pub indefinite_cases: u64,
    pub nontrivial: u64,
    pub samples: Vec<Value>,
    pub viol_written: u64,
    pub constructs: BTreeMap<String, u64>,
}

fn flat(entries: &Value) -> Value {
    fn text(tree: &Value, out: &mut Vec<Value>) {
        if let Some(a) = tree.as_array() {
            for n in a {
                if let Some(s) = n.get("s") {
                    out.extend(s.as_array().cloned().unwrap_or_default());
                } else if let Some(v) = n.get("v") {
                    text(v, out);
                }
            }
        }
    }
    let mut res = Vec::new();
    if let Some(a) = entries.as_array() {
        for e in a {
            if let Some(n) = e.get("n") {
                res.push(json!([false, n]));
            } else if let Some(m) = e.get("m") {
                let mut t = Vec::new();
                text(m, &mut t);
                res.push(json!([true, t]));
            }
        }
    }
    Value::Array(res)
}

pub fn cps_str(v: &Value) -> String {
    crate::cps_to_string(v).unwrap_or_else(|| "<bad>".into())
}

struct Ctx<'a> {
    stats: &'a Mutex<Stats>,
    viol: &'a Mutex<Option<std::fs::File>>,
}

impl Ctx<'_> {
    fn bump(&self, map_sel: u8, kind: &str) {
        let mut st = self.stats.lock().unwrap();
        let m = if map_sel == 0 { &mut st.compared } else { &mut st.mismatches };
        *m.entry(kind.to_string()).or_insert(0) += 1;
    }
    fn violation(&self, kind: &str, beh: &Value, s: &Value, call: &str, expected: Value, observed: Value) {
        self.bump(1, kind);
        let cut = observed.get("cut").cloned().unwrap_or(json!(0));
        if cut != json!(0) {
            self.bump(1, &format!("{}@cutoff", kind));
        }
        let mut st = self.stats.lock().unwrap();
        if st.viol_written < 2000 {
            st.viol_written += 1;
            drop(st);
            let rec = json!({
                "kind": kind, "pat": beh["pat"], "pat_s": cps_str(&beh["pat"]), "flags": cps_str(&beh["flags"]),
                "x": beh["x"], "s": s, "s_s": cps_str(s), "call": call, "expected": expected, "observed": &observed,
                "repl2": beh["repl2"], "unopt": beh["unopt"], "law": beh["law"], "pat2_s": beh["pat2_s"],
                "cut": cut,
            });
            if let Some(f) = self.viol.lock().unwrap().as_mut() {
                let _ = writeln!(f, "{}", rec);
            }
        }
    }
}

/// faults common to every result: panic / Internal / hang / abort / too many items
fn fault_kind(r: &Value) -> Option<&'static str> {
    match r["k"].as_str().unwrap_or("") {
        "panic" => Some("panic"),
        "hang" => Some("hang"),
        "abort" => Some("abort"),
        "badjob" => Some("badjob"),
        "err" if r["e"] == "Internal" => Some("internal"),
        "ok" if r["capped"] == true || r["extra"].as_u64().unwrap_or(0) > 0 => Some("items"),
        _ => None,
    }
}

fn strip_iter_meta(r: &Value) -> Value {
    let mut r = r.clone();
    if let Some(o) = r.as_object_mut() {
        o.remove("capped");
        o.remove("extra");
        o.remove("cut");
    }
    r
}

fn compare(ctx: &Ctx, beh: &Value, reply: &Value) {
    let comp = &reply["compile"];
    let exp_comp = beh["comp"].as_str().unwrap_or("ok");
    ctx.bump(0, "compile");
    if let Some(k) = fault_kind(comp) {
        ctx.violation(k, beh, &json!([]), "compile", json!(exp_comp), comp.clone());
        return;
    }
    let got_ok = comp["k"] == "ok";
    if exp_comp == "ok" && !got_ok {
        ctx.violation("compile", beh, &json!([]), "compile", json!({"k":"ok"}), comp.clone());
        return;
    }
    if exp_comp != "ok" {
        // expected an error of the given kind
        if got_ok || comp["e"].as_str() != Some(exp_comp) {
            ctx.violation("compile", beh, &json!([]), "compile", json!({"k":"err","e":exp_comp}), comp.clone());
        }
        return;
    }
    let nullable = beh["nullable"].as_bool().unwrap_or(false);
    let cases = beh["cases"].as_array().cloned().unwrap_or_default();
    let res = reply["res"].as_array().cloned().unwrap_or_default();
    let per = 5;
    for (ci, case) in cases.iter().enumerate() {
        let s = &case["s"];
        let r = |j: usize| res.get(ci * per + j).cloned().unwrap_or(json!({"k":"missing"}));
        let names = ["is_match", "replace0", "replace2", "tokenize", "analyze"];
        // a call that panicked / hung / aborted is reported as such and excluded from the comparisons;
        // the other calls of the same case are still compared
        let mut fault = [false; 5];
        for j in 0..per {
            if let Some(k) = fault_kind(&r(j)) {
                ctx.violation(k, beh, s, names[j], Value::Null, r(j));
                fault[j] = true;
            }
        }
        {
            let mut st = ctx.stats.lock().unwrap();
            st.cases += 1;
            st.calls += per as u64;
        }
        if case["u"] == true {
            ctx.stats.lock().unwrap().unspec_cases += 1;
            continue;
        }
        // C01
        if !fault[0] {
            ctx.bump(0, "m");
            if r(0)["v"] != case["m"] {
                ctx.violation("m", beh, s, "is_match", json!({"k":"ok","v":case["m"]}), r(0));
            }
        }
        // C16: MatchesEmptyString iff nullable
        let s_empty = s.as_array().map(|a| a.is_empty()).unwrap_or(true);
        for j in 1..per {
            if fault[j] {
                continue;
            }
            let should_err = nullable && !(j == 3 && s_empty);
            let is_err = r(j)["k"] == "err" && r(j)["e"] == "MatchesEmptyString";
            ctx.bump(0, "nullable");
            if should_err != is_err {
                ctx.violation("nullable", beh, s, names[j], json!({"nullable": nullable}), r(j));
            }
        }
        if nullable && s_empty && !fault[3] {
            ctx.bump(0, "tok");
            if r(3)["v"] != json!([]) {
                ctx.violation("tok", beh, s, "tokenize", json!({"k":"ok","v":[]}), r(3));
            }
        }
        if case["def"] != true {
            ctx.stats.lock().unwrap().indefinite_cases += 1;
            continue;
        }
        // (the observed value is compared without its bookkeeping fields, but reported with them: the
        //  cut-off note is what identifies a known finding)
        let cmp = |kind: &str, name: &str, exp: &Value, raw: Value| {
            ctx.bump(0, kind);
            if *exp != strip_iter_meta(&raw) {
                ctx.violation(kind, beh, s, name, exp.clone(), raw);
            }
        };
        if !fault[1] {
            cmp("span", "replace0", &case["r0"], r(1));
        }
        if case["capdef"] != false && !fault[2] {
            cmp("group", "replace2", &case["rg"], r(2));
        }
        if !fault[3] {
            cmp("tok", "tokenize", &case["tok"], r(3));
        }
        let exp_ana = &case["ana"];
        let got_ana = strip_iter_meta(&r(4));
        if fault[4] {
            // reported above
        } else if exp_ana["k"] != "ok" || got_ana["k"] != "ok" {
            cmp("anaflat", "analyze", exp_ana, r(4));
        } else {
            let (ef, gf) = (flat(&exp_ana["v"]), flat(&got_ana["v"]));
            ctx.bump(0, "anaflat");
            if ef != gf {
                ctx.violation("anaflat", beh, s, "analyze", exp_ana.clone(), r(4));
            } else if case["treedef"] == true {
                cmp("tree", "analyze", exp_ana, r(4));
            }
        }
    }
}

/// C18: every call of a history must return what the spec says (which is, by construction, what the same
/// call returns on a freshly compiled Regex), whatever else happened on the shared objects
fn compare_history(ctx: &Ctx, job: &Value, reply: &Value) {
    let hist = job["hist"].as_array().cloned().unwrap_or_default();
    let res = reply["res"].as_array().cloned().unwrap_or_default();
    let mode = job["mode"].as_str().unwrap_or("seq");
    // source of each register / iterator, for the violation record
    let mut src: std::collections::HashMap<u64, Value> = std::collections::HashMap::new();
    let mut itsrc: std::collections::HashMap<u64, (u64, Value)> = std::collections::HashMap::new();
    for (i, op) in hist.iter().enumerate() {
        let name = op["op"].as_str().unwrap_or("");
        if name == "compile" {
            src.insert(op["r"].as_u64().unwrap_or(0), json!({"pat": op["pat"], "flags": op["flags"], "x": op["x"]}));
        }
        if name == "tokenize" || name == "analyze" {
            itsrc.insert(op["it"].as_u64().unwrap_or(0), (op["r"].as_u64().unwrap_or(0), op["s"].clone()));
        }
        let exp = match op.get("exp") {
            Some(e) => e,
            None => continue,
        };
        let got = strip_iter_meta(res.get(i).unwrap_or(&Value::Null));
        {
            let mut st = ctx.stats.lock().unwrap();
            st.calls += 1;
            st.cases += 1;
        }
        let (r, s) = if name == "next" {
            itsrc.get(&op["it"].as_u64().unwrap_or(0)).cloned().unwrap_or((0, json!([])))
        } else {
            (op["r"].as_u64().unwrap_or(0), op.get("s").cloned().unwrap_or(json!([])))
        };
        let mut beh = src.get(&r).cloned().unwrap_or(json!({"pat": [], "flags": [], "x": true}));
        beh["history_mode"] = json!(mode);
        let raw = res.get(i).cloned().unwrap_or(Value::Null);
        // purity, decided on the real code alone: same call, fresh object
        if let Some(fr) = reply["fresh"].get(i) {
            if !fr.is_null() && fault_kind(&raw).is_none() {
                ctx.bump(0, "impure");
                let a = strip_iter_meta(fr);
                // an open call's fresh counterpart has no iterator id to compare: only the kind
                if a != got {
                    ctx.violation("impure", &beh, &s, &format!("{}#{}({})", name, i, mode), a, got.clone());
                }
            }
        }
        if let Some(k) = fault_kind(&raw) {
            ctx.violation(k, &beh, &s, &format!("{}#{}({})", name, i, mode), exp.clone(), raw);
            continue;
        }
        ctx.bump(0, "history");
        let ok = if exp["k"] == "either" {
            got == json!({"k":"ok","v":exp["v"]}) || (got["k"] == "err" && got["e"] == "InvalidReplacementString")
        } else if exp["k"] == "err" && exp["e"].is_array() {
            got["k"] == "err" && exp["e"].as_array().unwrap().contains(&got["e"])
        } else {
            got == *exp
        };
        if !ok {
            let mut obs = got.clone();
            if let Some(c) = raw.get("cut") {
                obs["cut"] = c.clone();
            }
            ctx.violation("history", &beh, &s, &format!("{}#{}({})", name, i, mode), exp.clone(), obs);
        }
    }
}

/// C08: optimised and unoptimised engine must return exactly the same from every call
fn compare_optdiff(ctx: &Ctx, beh: &Value, reply: &Value) {
    let c1 = strip_iter_meta(&reply["compile"]);
    let c2 = strip_iter_meta(&reply["compile2"]);
    ctx.bump(0, "optdiff");
    if c1 != c2 {
        ctx.violation("optdiff", beh, &json!([]), "compile", c1, c2);
        return;
    }
    let (r1, r2) = match (reply["res"].as_array(), reply["res2"].as_array()) {
        (Some(a), Some(b)) if a.len() == b.len() => (a, b),
        _ => return,
    };
    let cases = beh["cases"].as_array().cloned().unwrap_or_default();
    let names = ["is_match", "replace0", "replace2", "tokenize", "analyze"];
    for (k, (a, b)) in r1.iter().zip(r2.iter()).enumerate() {
        let (sa, sb) = (strip_iter_meta(a), strip_iter_meta(b));
        ctx.bump(0, "optdiff");
        if sa != sb {
            let s = cases.get(k / 5).map(|c| c["s"].clone()).unwrap_or(json!([]));
            let mut obs = sb.clone();
            if let Some(c) = a.get("cut").or(b.get("cut")) {
                obs["cut"] = c.clone();
            }
            ctx.violation("optdiff", beh, &s, names[k % 5], sa, obs);
        }
    }
}

/// law pairs: the two spellings must agree with each other on the real code
fn compare_pair(ctx: &Ctx, pair: &Value, reply: &Value) {
    let same = pair["same"].as_str().unwrap_or("m");
    let (r1, r2) = (reply["res"].as_array(), reply["res2"].as_array());
    let (r1, r2) = match (r1, r2) {
        (Some(a), Some(b)) if a.len() == b.len() => (a, b),
        _ => {
            if reply["compile"]["k"] != reply["compile2"]["k"] {
                ctx.violation("pair", &pair["a"], &json!([]), "compile", reply["compile"].clone(), reply["compile2"].clone());
            }
            return;
        }
    };
    let cases = pair["a"]["cases"].as_array().cloned().unwrap_or_default();
    let per = 5;
    let names = ["is_match", "replace0", "replace2", "tokenize", "analyze"];
    for (ci, case) in cases.iter().enumerate() {
        for j in 0..per {
            let (a, b) = (strip_iter_meta(&r1[ci * per + j]), strip_iter_meta(&r2[ci * per + j]));
            if fault_kind(&a).is_some() || fault_kind(&b).is_some() {
                continue;
            }
            // spans and everything derived from them are claimed for strict patterns only (T16 does the same):
            // outside the strict fragment the two spellings need only agree on is_match
            let both_strict = pair["a"]["strict"].as_bool().unwrap_or(false) && pair["b"]["strict"].as_bool().unwrap_or(false);
            let relevant = match (same, j) {
                (_, 0) => true,
                (_, _) if !both_strict => false,
                ("all", _) => true,
                ("spans", 1) | ("spans", 3) => true,
                _ => false,
            };
            if !relevant {
                continue;
            }
            ctx.bump(0, if j == 0 { "pair_m" } else { "pair" });
            let eq = if same == "spans" && j == 4 { flat(&a["v"]) == flat(&b["v"]) } else { a == b };
            if !eq {
                let mut beh = pair["a"].clone();
                beh["pat2_s"] = json!(cps_str(&pair["b"]["pat"]));
                beh["law"] = pair["law"].clone();
                let mut obs = b.clone();
                if let Some(c) = r1[ci * per + j].get("cut").or(r2[ci * per + j].get("cut")) {
                    obs["cut"] = c.clone();
                }
                ctx.violation(if j == 0 { "pair_m" } else { "pair" }, &beh, &case["s"], names[j], a, obs);
            }
        }
    }
}

fn job_of(beh: &Value, id: u64) -> Value {
    let mut calls = Vec::new();
    let r0 = json!([91, 36, 48, 93]);
    if let Some(cases) = beh["cases"].as_array() {
        for c in cases {
            let s = &c["s"];
            calls.push(json!({"op":"is_match","s":s}));
            calls.push(json!({"op":"replace","s":s,"r":r0}));
            calls.push(json!({"op":"replace","s":s,"r":beh["repl2"]}));
            calls.push(json!({"op":"tokenize","s":s}));
            calls.push(json!({"op":"analyze","s":s}));
        }
    }
    let mut j = Map::new();
    j.insert("id".into(), json!(id));
    j.insert("pat".into(), beh["pat"].clone());
    j.insert("flags".into(), beh["flags"].clone());
    j.insert("x".into(), beh["x"].clone());
    j.insert("unopt".into(), beh.get("unopt").cloned().unwrap_or(json!(false)));
    j.insert("calls".into(), Value::Array(calls));
    j.insert("beh".into(), beh.clone());
    Value::Object(j)
}

pub fn main(args: &[String]) -> i32 {
    let out_path = arg(args, "--out").unwrap_or("replay_stats.json").to_string();
    let viol_path = arg(args, "--viol").unwrap_or("replay_viol.ndjson").to_string();
    let nworkers: usize = arg(args, "--workers").and_then(|s| s.parse().ok()).unwrap_or(8);
    let also_unopt = args.iter().any(|a| a == "--also-unopt");
    // --facts <file>: also ask for the compile-time facts of every behaviour's pattern and log them as
    // facts events (validated afterwards by FactsTrace.tla)
    let facts_path = arg(args, "--facts").map(|s| s.to_string());
    let want_facts = facts_path.is_some();
    let facts_out = Mutex::new(facts_path.and_then(|p| std::fs::File::create(p).ok()));
    let stats = Mutex::new(Stats::default());
    let viol = Mutex::new(std::fs::File::create(&viol_path).ok());
    let ctx = Ctx { stats: &stats, viol: &viol };
    let mut id = 0u64;
    let lines = std::io::BufReader::with_capacity(1 << 20, std::fs::File::open("/dev/stdin").expect("stdin")).lines();
    let mut pending: Vec<Value> = Vec::new();
    let jobs = lines.filter_map(|l| l.ok()).flat_map(move |l| {
        pending.clear();
        if l.starts_with("<<\"B\"") {
            match parse_b_line(&l) {
                Some(beh) => {
                    id += 1;
                    let mut j = job_of(&beh, id);
                    if want_facts && beh["comp"].as_str().unwrap_or("ok") == "ok" {
                        j["facts"] = json!(true);
                    }
                    if also_unopt {
                        // the same source compiled with every compile-time optimisation switched off (C08)
                        j["pat2"] = beh["pat"].clone();
                        j["flags2"] = beh["flags"].clone();
                        j["x2"] = beh["x"].clone();
                        j["unopt2"] = json!(true);
                    }
                    pending.push(j);
                }
                None => println!("REPLAY-BADLINE {}", &l[..l.len().min(200)]),
            }
        } else if l.starts_with("<<\"H\"") {
            // a history of calls on shared objects (C18): replayed in order, and from several threads
            let body = l.strip_prefix("<<\"H\", \"").and_then(|r| r.strip_suffix("\">>"));
            match body.and_then(|b| serde_json::from_str::<Value>(&unescape_tla(b)).ok()) {
                Some(h) => {
                    for mode in ["seq", "mt"] {
                        id += 1;
                        pending.push(json!({"id": id, "hist": h["hist"], "mode": mode, "beh": {"pat": [], "flags": []}}));
                    }
                }
                None => println!("REPLAY-BADLINE {}", &l[..l.len().min(200)]),
            }
        } else if l.starts_with("<<\"P\"") {
            match parse_p_line(&l) {
                Some(pair) => {
                    id += 1;
                    let mut j = job_of(&pair["a"], id);
                    j["pat2"] = pair["b"]["pat"].clone();
                    j["flags2"] = pair["b"]["flags"].clone();
                    j["x2"] = pair["b"]["x"].clone();
                    j["pair"] = pair.clone();
                    pending.push(j);
                }
                None => println!("REPLAY-BADLINE {}", &l[..l.len().min(200)]),
            }
        } else {
            println!("{}", l);
        }
        pending.clone().into_iter()
    });
    pool::process(nworkers, jobs, |job, reply| {
        if job.get("hist").is_some() {
            compare_history(&ctx, &job, &reply);
            let mut st = stats.lock().unwrap();
            st.behaviours += 1;
            st.nontrivial += 1;
            if st.samples.len() < 2 {
                st.samples.push(json!({"history": job["hist"], "mode": job["mode"]}));
            }
            return;
        }
        let beh = &job["beh"];
        {
            let mut st = stats.lock().unwrap();
            st.behaviours += 1;
            if beh["pat"].as_array().map(|a| a.len()).unwrap_or(0) > 1 {
                st.nontrivial += 1;
            }
            // which constructs the replayed patterns exercise (vacuity evidence)
            let p = cps_str(&beh["pat"]);
            for (name, tok) in [("group", "("), ("noncapturing", "(?:"), ("alternation", "|"), ("star", "*"), ("plus", "+"),
                                ("optional", "?"), ("counted", "{"), ("lazy", "*?"), ("lazy2", "+?"), ("backref", "\\1"),
                                ("bol", "^"), ("eol", "$"), ("class", "["), ("negclass", "[^"), ("subtraction", "-["),
                                ("dot", "."), ("escape_d", "\\d"), ("category", "\\p{")] {
                if p.contains(tok) {
                    *st.constructs.entry(name.to_string()).or_insert(0) += 1;
                }
            }
            if p.is_empty() {
                *st.constructs.entry("empty_pattern".to_string()).or_insert(0) += 1;
            }
            if st.samples.len() < 3 && st.behaviours % 97 == 1 {
                let mut b = beh.clone();
                if let Some(c) = b["cases"].as_array_mut() {
                    c.truncate(2);
                }
                b["pat_s"] = json!(cps_str(&beh["pat"]));
                st.samples.push(b);
            }
        }
        compare(&ctx, beh, &reply);
        if let Some(fa) = reply.get("facts") {
            if fa.get("minlen").is_some() {
                let opt = |v: &Value| if v.is_null() { json!({"some": false, "v": []}) } else { json!({"some": true, "v": v}) };
                let probe = crate::record::probe_of(&beh["pat"]);
                let ev = json!({"ev":"facts","pat":beh["pat"],"flags":beh["flags"],"xpath":beh["x"],
                                "facts":{"prefix":opt(&fa["prefix"]),"initial":opt(&fa["initial"]),"minlen":fa["minlen"],
                                         "hasbol":fa["hasbol"],"pre":crate::record::strip_sets(&fa["pre"], &probe),
                                         "ops":crate::record::strip_sets(&fa["ops"], &probe)}});
                if let Some(f) = facts_out.lock().unwrap().as_mut() {
                    let _ = writeln!(f, "{}", ev);
                }
            }
        }
        if job.get("unopt2").is_some() {
            let mut b2 = beh.clone();
            b2["unopt"] = json!(true);
            let reply2 = json!({"compile": reply["compile2"], "res": reply["res2"]});
            compare(&ctx, &b2, &reply2);
            compare_optdiff(&ctx, beh, &reply);
        }
        if job.get("pair").is_some() {
            let pair = &job["pair"];
            let reply2 = json!({"compile": reply["compile2"], "res": reply["res2"]});
            compare(&ctx, &pair["b"], &reply2);
            compare_pair(&ctx, pair, &reply);
        }
    });
    let st = stats.lock().unwrap();
    let out = json!({
        "behaviours": st.behaviours, "cases": st.cases, "calls": st.calls,
        "compared": st.compared, "mismatches": st.mismatches,
        "unspec_cases": st.unspec_cases, "indefinite_cases": st.indefinite_cases,
        "nontrivial": st.nontrivial, "samples": st.samples, "constructs": st.constructs,
        "confirmed_hangs": pool::CONFIRMED_HANGS.load(std::sync::atomic::Ordering::SeqCst),
        "fault_jobs": pool::FAULT_JOBS.load(std::sync::atomic::Ordering::SeqCst),
        "skipped_jobs": pool::SKIPPED_JOBS.load(std::sync::atomic::Ordering::SeqCst),
    });
    if std::fs::write(&out_path, serde_json::to_string_pretty(&out).unwrap()).is_err() {
        eprintln!("cannot write {}", out_path);
        return 2;
    }
    0
}
