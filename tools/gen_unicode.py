#!/usr/bin/env python3
"""Generate data/gc14.json: maximal runs of code points with equal General_Category,
from CPython's unicodedata (Unicode 14.0 in this sandbox).  Committed together with its output;
run once (python3 tools/gen_unicode.py)."""
import json, unicodedata, sys, os
assert unicodedata.unidata_version.startswith("14."), unicodedata.unidata_version
segs = []
lo, cur = 0, unicodedata.category(chr(0))
for cp in range(1, 0x110000):
    c = unicodedata.category(chr(cp))
    if c != cur:
        segs.append([lo, cp - 1, cur]); lo, cur = cp, c
segs.append([lo, 0x10FFFF, cur])
out = os.path.join(os.path.dirname(os.path.abspath(__file__)), "..", "data", "gc14.json")
json.dump({"version": unicodedata.unidata_version, "segs": segs}, open(out, "w"), separators=(",", ":"))
# the same data, shaped as one interval list per category name (one-letter groups included), for ClassTrace.tla
first = lambda c: c[0]
names = sorted(set(c for _, _, c in segs) | set(first(c) for _, _, c in segs))
cativ = {}
for n in names:
    iv = []
    for lo, hi, c in segs:
        if c == n or (len(n) == 1 and c[0] == n):
            if iv and iv[-1][1] + 1 == lo:
                iv[-1][1] = hi
            else:
                iv.append([lo, hi])
    cativ[n] = iv
json.dump(cativ, open(os.path.join(os.path.dirname(out), "cativ14.json"), "w"), separators=(",", ":"))
print(len(segs), "segments", len(names), "names")
