#!/usr/bin/env python3
"""Seeded changes (/verif/seeded/<id>/): confirm them in a scratch worktree, run checks against them.
   seedtest.py confirm <id>          apply patch.diff in a scratch worktree of /repo HEAD: the 1032 tests must pass,
                                     demo.rs must fail with the patch and pass without it
   seedtest.py run <id> <prop>...    apply the patch to /repo, run ./check <prop> quick, undo the patch"""
import json, os, subprocess, sys, shutil, time
ROOT = os.path.dirname(os.path.dirname(os.path.abspath(__file__)))
REPO = "/repo"

def sh(cmd, **kw):
    return subprocess.run(cmd, shell=True, stdout=subprocess.PIPE, stderr=subprocess.STDOUT, text=True, **kw)

def tests(wt, target):
    p = sh("cd %s && timeout 900 cargo test --workspace --no-fail-fast --offline --target-dir %s 2>&1 | grep -E '^test result'" % (wt, target))
    passed = failed = 0
    for l in p.stdout.splitlines():
        f = l.split()
        passed += int(f[3]); failed += int(f[5])
    return passed, failed

def demo(wt, target, sd):
    shutil.copy(os.path.join(sd, "demo.rs"), os.path.join(wt, "regexml", "tests", "verif_demo.rs"))
    p = sh("cd %s && timeout 600 cargo test --offline -p regexml --test verif_demo --target-dir %s 2>&1 | grep -E '^test result|error'" % (wt, target))
    os.remove(os.path.join(wt, "regexml", "tests", "verif_demo.rs"))
    ok = "test result: ok" in p.stdout
    return ok, p.stdout.strip()

def confirm(sid):
    sd = os.path.join(ROOT, "seeded", sid)
    wt = "/tmp/seedwt_%s" % sid
    sh("git -C %s worktree remove --force %s" % (REPO, wt))
    r = sh("git -C %s worktree add --detach %s HEAD" % (REPO, wt))
    target = wt + "/target"
    res = {}
    try:
        a = sh("git -C %s apply --3way %s/patch.diff || git -C %s apply %s/patch.diff" % (wt, sd, wt, sd))
        res["apply"] = a.returncode == 0
        if not res["apply"]:
            print(a.stdout[-2000:])
            return res
        res["suite_with_patch"] = tests(wt, target)
        res["demo_with_patch_passes"], res["demo_with_patch_out"] = demo(wt, target, sd)
        sh("git -C %s checkout -- . && git -C %s reset -q && git -C %s checkout -- ." % (wt, wt, wt))
        res["demo_without_patch_passes"], res["demo_without_patch_out"] = demo(wt, target, sd)
    finally:
        sh("git -C %s worktree remove --force %s" % (REPO, wt))
        shutil.rmtree(wt, ignore_errors=True)
    res["confirmed"] = bool(res.get("apply") and res["suite_with_patch"][1] == 0 and res["suite_with_patch"][0] >= 1032
                            and not res["demo_with_patch_passes"] and res["demo_without_patch_passes"])
    print(json.dumps(res, indent=1))
    return res

def run(sid, props, tier="quick"):
    """Checks run against a scratch worktree of /repo HEAD with the patch applied (VERIF_REPO), so that /repo itself
    stays untouched while background runs use it; equivalent to `git -C /repo apply` + check + `git checkout -- .`."""
    sd = os.path.join(ROOT, "seeded", sid)
    wt = "/tmp/seedrun_%s" % sid
    sh("git -C %s worktree remove --force %s" % (REPO, wt))
    sh("git -C %s worktree add --detach %s HEAD" % (REPO, wt))
    shutil.copy(os.path.join(REPO, "Cargo.lock"), os.path.join(wt, "Cargo.lock"))
    a = sh("git -C %s apply %s/patch.diff" % (wt, sd))
    out = {}
    # the evidence files must come from runs against /repo itself: keep them aside while checking a changed tree
    ev, keep = os.path.join(ROOT, "evidence"), "/tmp/seedrun_evidence_%s" % sid
    shutil.rmtree(keep, ignore_errors=True)
    shutil.copytree(ev, keep)
    try:
        if a.returncode != 0:
            print(a.stdout); return {"apply": False}
        for p in props:
            t0 = time.time()
            r = sh("cd %s && VERIF_REPO=%s ./check %s %s" % (ROOT, wt, p, tier))
            lines = [l for l in r.stdout.splitlines() if l.startswith("VIOLATION") or l.startswith("TOOL-ERROR")]
            out[p] = {"exit": r.returncode, "violations": len(lines), "first": [l[:300] for l in lines[:2]], "wall_s": round(time.time() - t0)}
            print(sid, p, json.dumps(out[p])[:700])
    finally:
        sh("git -C %s worktree remove --force %s" % (REPO, wt))
        shutil.rmtree(wt, ignore_errors=True)
        shutil.rmtree(ev, ignore_errors=True)
        shutil.copytree(keep, ev)
        shutil.rmtree(keep, ignore_errors=True)
        sh("cd %s/harness && sed -i 's#path = \"[^\"]*/regexml\"#path = \"/repo/regexml\"#' Cargo.toml" % ROOT)
    return out

if __name__ == "__main__":
    if sys.argv[1] == "confirm":
        confirm(sys.argv[2])
    elif sys.argv[1] == "run":
        run(sys.argv[2], sys.argv[3:])
