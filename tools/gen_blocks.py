#!/usr/bin/env python3
"""Derive data/blocks.json from the block list shipped with the repository
(regexml-ucd-blocks/src/Blocks.txt + CompatBlocks.txt).  Lookup key = name with spaces and
underscores removed (XSD 1.1 G.4.2.3: 'Is' + block name with white space stripped)."""
import json, os, sys
repo = sys.argv[1] if len(sys.argv) > 1 else os.environ.get("VERIF_REPO", "/repo")
out = sys.argv[2] if len(sys.argv) > 2 else os.path.join(os.path.dirname(os.path.abspath(__file__)), "..", "data", "blocks.json")
blocks = []
for f in ("Blocks.txt", "CompatBlocks.txt"):
    for line in open(os.path.join(repo, "regexml-ucd-blocks", "src", f), encoding="utf-8"):
        if line.startswith("#") or not line.strip():
            continue
        rng, name = line.split(";")[:2]
        a, b = rng.strip().split("..")
        name = name.strip()
        blocks.append({"name": [ord(c) for c in name.replace(" ", "").replace("_", "")],
                       "raw": name, "lo": int(a, 16), "hi": int(b, 16)})
tmp = out + ".%d.tmp" % os.getpid()
json.dump({"blocks": blocks}, open(tmp, "w"), separators=(",", ":"))
os.replace(tmp, out)                      # atomic: another check may be reading the file
print(len(blocks), "blocks")
