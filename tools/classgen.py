#!/usr/bin/env python3
"""Generator of class expressions for C09 (not trusted: the oracle parses the text itself).
Deterministic part: every expression over a 6-item vocabulary with up to 3 items, positive and negative;
seeded part: nested subtractions (depth <= 3), hyphens in the legal positions, wide ranges, \\p{..} items."""
import json, random, sys

ITEMS6 = ["a", "b-d", "\\d", "\\-", "\\p{Lu}", "\\u"]          # \u stands for an astral range, expanded below
def expand(it):
    return it.replace("\\u", "\U0001043F-\U00010450")
CHARS = ["a", "b", "z", "0", "9", "A", "\\-", "\\^", "\\]", "\\[", "\\\\", "α", "\U00010400", " ", "\\n", ".", "(", "|", "$"]
RANGES = ["a-c", "0-9", "A-Z", "α-ρ", "￰-\U00010010", "\\--0", "\\n-\\r", "!-/", "\U0010FFF0-\U0010FFFF", "\u0000-\u001f".replace("\u0000", "\\t")]
ESCS = ["\\d", "\\D", "\\w", "\\W", "\\s", "\\S", "\\i", "\\I", "\\c", "\\C", "\\p{Lu}", "\\P{Lu}", "\\p{L}", "\\p{Nd}", "\\p{Zs}",
        "\\P{C}", "\\p{Cn}", "\\p{IsGreek}", "\\P{IsBasicLatin}", "\\p{IsPrivateUse}", "\\p{IsDeseret}", "\\p{Sm}", "\\p{Po}"]

def deterministic():
    out = []
    n = len(ITEMS6)
    for neg in ("", "^"):
        for i in range(n):
            out.append("[%s%s]" % (neg, expand(ITEMS6[i])))
            for j in range(n):
                out.append("[%s%s%s]" % (neg, expand(ITEMS6[i]), expand(ITEMS6[j])))
                for k in range(n):
                    out.append("[%s%s%s%s]" % (neg, expand(ITEMS6[i]), expand(ITEMS6[j]), expand(ITEMS6[k])))
    out += ESCS                                     # bare escapes
    out += ["[a]", "a", "[\\-]", "[-a]", "[a-]", "[^-]", "[-]", "[a\\-z]", "[\\^a]", "[a^]", "[^^]"]
    return out

def rand_class(rng, depth):
    s = "["
    if rng.random() < 0.3:
        s += "^"
    if rng.random() < 0.08:
        s += "-"
    for _ in range(rng.randint(1, 3)):
        r = rng.random()
        if r < 0.4:
            s += rng.choice(CHARS)
        elif r < 0.7:
            s += rng.choice(RANGES)
        else:
            s += rng.choice(ESCS)
    if depth > 0 and rng.random() < 0.4:
        s += "-" + rand_class(rng, depth - 1)
    elif rng.random() < 0.06:
        s += "-"
    return s + "]"

def points_for(pat, rng):
    pts = set()
    for ch in pat:
        c = ord(ch)
        for d in (-1, 0, 1):
            if 0 <= c + d <= 0x10FFFF:
                pts.add(c + d)
    for c in (0, 9, 10, 13, 32, 45, 48, 57, 65, 90, 97, 122, 0xD7FF, 0xE000, 0xFFFD, 0x10000, 0x10FFFF, 0x370, 0x3FF, 0x400,
              0x10400, 0x1044F, 0x10450, 0xF8FF, 0xF900, 0x2FF, 0x300, 0x36F, 0xB7, 0xAA, 0x1F600):
        pts.add(c)
    while len(pts) < 400:
        pts.add(rng.randrange(0, 0x110000))
    return sorted(p for p in pts if not (0xD800 <= p <= 0xDFFF))

def main():
    seed, nrand, out_full, out_pts = int(sys.argv[1]), int(sys.argv[2]), sys.argv[3], sys.argv[4]
    full_limit = int(sys.argv[5])
    rng = random.Random(seed)
    pats = deterministic() + [rand_class(rng, 2) for _ in range(nrand)]
    seen, uniq = set(), []
    for p in pats:
        if p not in seen:
            seen.add(p); uniq.append(p)
    rng2 = random.Random(seed + 1)
    order = list(range(len(uniq)))
    rng2.shuffle(order)
    full_idx = set(order[:full_limit])
    with open(out_full, "w") as f, open(out_pts, "w") as g:
        for i, p in enumerate(uniq):
            cps = [ord(c) for c in p]
            if i in full_idx:
                f.write(json.dumps({"pat": cps, "flags": []}) + "\n")
            g.write(json.dumps({"pat": cps, "flags": [], "pts": points_for(p, rng)}) + "\n")
            if i % 3 == 0:
                g.write(json.dumps({"pat": cps, "flags": [105], "pts": points_for(p, rng)}) + "\n")
    print(json.dumps({"classes": len(uniq), "full": len(full_idx)}))

if __name__ == "__main__":
    main()
