#!/usr/bin/env python3
"""Orchestrator behind ./check: builds the harness from /repo's working tree, runs TLC (model
checking + behaviour generation) piped into the Rust replayer, runs the seeded recorders and
validates their traces with TLC, matches what was found against KNOWN_FINDINGS.txt, writes the
evidence file.  Exit codes: 0 held / 1 violation / 2 tool error."""
import json, os, re, subprocess, sys, time, shutil, hashlib, glob

ROOT = os.path.dirname(os.path.dirname(os.path.abspath(__file__)))
SPEC = os.path.join(ROOT, "spec")
WORK = os.path.join(ROOT, ".work")
HARN = os.path.join(ROOT, "harness")
BIN = os.path.join(HARN, "target", "release", "vharness")
REPO = os.environ.get("VERIF_REPO", "/repo")
TLC = os.path.join(ROOT, "tools", "tlc.sh")
NCPU = os.cpu_count() or 8


class ToolError(Exception):
    pass


def log(*a):
    print("[check]", *a, file=sys.stderr, flush=True)


def run(cmd, **kw):
    return subprocess.run(cmd, **kw)


# ------------------------------------------------------------------------------------------
# build
# ------------------------------------------------------------------------------------------
def build_harness():
    """cargo build of the harness against REPO's working tree (hooks enabled through
    harness/.cargo/config.toml).  A build failure is a tool error, not a verdict."""
    os.makedirs(WORK, exist_ok=True)
    cargo_toml = os.path.join(HARN, "Cargo.toml")
    txt = open(cargo_toml).read()
    want = 'regexml = { path = "%s/regexml" }' % REPO
    new = re.sub(r'regexml = \{ path = "[^"]*" \}', want, txt)
    if new != txt:
        open(cargo_toml, "w").write(new)
    lock = os.path.join(HARN, "Cargo.lock")
    if not os.path.exists(lock):
        shutil.copy(os.path.join(REPO, "Cargo.lock"), lock)
    t0 = time.time()
    p = run(["cargo", "build", "--release", "--offline"], cwd=HARN, stdout=subprocess.PIPE,
            stderr=subprocess.STDOUT, text=True)
    if p.returncode != 0:
        sys.stderr.write(p.stdout[-4000:])
        raise ToolError("cargo build of the harness failed")
    log("harness built in %.1fs" % (time.time() - t0))
    p = run([sys.executable, os.path.join(ROOT, "tools", "gen_blocks.py"), REPO,
             os.path.join(ROOT, "data", "blocks.json")], stdout=subprocess.PIPE, text=True)
    if p.returncode != 0:
        raise ToolError("gen_blocks failed")


# ------------------------------------------------------------------------------------------
# TLC
# ------------------------------------------------------------------------------------------
def tla_set(xs):
    return "{" + ", ".join(str(x) for x in xs) + "}"


def write_cfg(path, consts, invariants, init="GInit", nxt="GNext", extra=""):
    lines = ["INIT %s" % init, "NEXT %s" % nxt, "CHECK_DEADLOCK FALSE", "CONSTANTS"]
    for k, v in consts.items():
        if isinstance(v, str) and v.startswith("<-"):
            lines.append("  %s %s" % (k, v))
        else:
            lines.append("  %s = %s" % (k, v))
    if invariants:
        lines.append("INVARIANTS " + " ".join(invariants))
    if extra:
        lines.append(extra)
    open(path, "w").write("\n".join(lines) + "\n")


TLC_STATS = re.compile(r"(\d[\d,]*) states generated, (\d[\d,]*) distinct states found")


def parse_tlc_log(text):
    """-> dict(states, distinct, errors[list of lines])"""
    states = distinct = 0
    for m in TLC_STATS.finditer(text):
        states = int(m.group(1).replace(",", ""))
        distinct = int(m.group(2).replace(",", ""))
    errors = [l for l in text.splitlines() if l.startswith("Error:") or "is violated" in l
              or "TLC threw" in l or "Exception" in l]
    finished = "Model checking completed" in text or "Finished in" in text
    return {"states": states, "distinct": distinct, "errors": errors, "finished": finished}


def tlc_gen_replay(tag, module, consts, invariants, workers=None, timeout_s=1800, also_unopt=False,
                   replay_workers=None, init="GInit", nxt="GNext", facts=False, trace=False):
    """Run TLC on `module` with a generated cfg; pipe stdout into `vharness replay`.
    Returns (tlcinfo, stats, violations)."""
    d = os.path.join(WORK, tag)
    shutil.rmtree(d, ignore_errors=True)
    os.makedirs(d)
    cfg = os.path.join(d, "mc.cfg")
    write_cfg(cfg, consts, invariants, init, nxt)
    workers = workers or max(2, NCPU - 4)
    replay_workers = replay_workers or max(2, NCPU // 2)
    env = dict(os.environ, VERIF_DATA=os.path.join(ROOT, "data"))
    tlc_cmd = ["timeout", str(timeout_s), TLC, "-workers", str(workers), "-metadir", os.path.join(d, "meta"),
               "-cleanup", "-noGenerateSpecTE", "-config", cfg, module]
    rp_cmd = [BIN, "replay", "--out", os.path.join(d, "stats.json"), "--viol", os.path.join(d, "viol.ndjson"),
              "--workers", str(replay_workers)]
    if also_unopt:
        rp_cmd.append("--also-unopt")
    if facts:
        rp_cmd += ["--facts", os.path.join(d, "facts.ndjson")]
    t0 = time.time()
    tlc = subprocess.Popen(tlc_cmd, cwd=SPEC, stdout=subprocess.PIPE, stderr=subprocess.STDOUT, env=env)
    rp_env = dict(os.environ)
    if trace:
        # the replayed calls are also logged by the tracer hook and validated by ApiTrace.tla afterwards: trace validation
        # is where the two-model acceptance of the IterAmbig zone lives, the replayer compares nothing there
        os.makedirs(os.path.join(d, "trace"))
        rp_env["REGEXML_VERIF_TRACE"] = os.path.join(d, "trace")
    rp = subprocess.Popen(rp_cmd, cwd=d, stdin=tlc.stdout, stdout=subprocess.PIPE, stderr=subprocess.STDOUT, text=True,
                          env=rp_env)
    tlc.stdout.close()
    out, _ = rp.communicate()
    tlc.wait()
    open(os.path.join(d, "tlc.log"), "w").write(out)
    info = parse_tlc_log(out)
    info["wall_s"] = round(time.time() - t0, 1)
    info["rc"] = tlc.returncode
    if tlc.returncode == 124:
        raise ToolError("TLC timed out in stage %s" % tag)
    if rp.returncode != 0:
        raise ToolError("replay failed in stage %s (rc %s)" % (tag, rp.returncode))
    if info["errors"] or not info["finished"] or tlc.returncode not in (0,):
        sys.stderr.write(out[-3000:])
        raise ToolError("TLC reported an error in stage %s: %s" % (tag, info["errors"][:3]))
    stats = json.load(open(os.path.join(d, "stats.json")))
    viols = [json.loads(l) for l in open(os.path.join(d, "viol.ndjson"))]
    if facts:
        fv, fst = validate_facts(tag, os.path.join(d, "facts.ndjson"))
        viols += fv
        stats["facts_events"] = fst["lines"]
        stats["facts_patterns_checked"] = fst["compared"]
        info["distinct"] += fst["states"]
    if trace:
        tt, tv = validate_traces(tag + "_tr", d)
        viols += tv
        stats["trace_events"] = tt["lines"]
        stats["trace_compared"] = tt["compared"]
        stats["trace_dual_or_weak"] = tt["weak"]
        info["distinct"] += tt["states"]
    log("stage %s: %d states, %d behaviours, %d cases, mismatches %s, %.1fs" % (
        tag, info["distinct"], stats["behaviours"], stats["cases"], stats["mismatches"], info["wall_s"]))
    return info, stats, viols


def tlc_sim_replay(tag, module, consts, invariants, num, depth, seed, init, nxt, extra="", timeout_s=2400):
    """TLC in simulation mode (random behaviours of the given depth), stdout piped into the replayer."""
    d = os.path.join(WORK, tag)
    shutil.rmtree(d, ignore_errors=True)
    os.makedirs(d)
    cfg = os.path.join(d, "mc.cfg")
    write_cfg(cfg, consts, invariants, init, nxt, extra)
    env = dict(os.environ, VERIF_DATA=os.path.join(ROOT, "data"))
    tlc_cmd = ["timeout", str(timeout_s), TLC, "-workers", "4", "-simulate", "num=%d" % num, "-depth", str(depth),
               "-seed", str(seed), "-metadir", os.path.join(d, "meta"), "-noGenerateSpecTE", "-config", cfg, module]
    rp_cmd = [BIN, "replay", "--out", os.path.join(d, "stats.json"), "--viol", os.path.join(d, "viol.ndjson"),
              "--workers", "6"]
    t0 = time.time()
    tlc = subprocess.Popen(tlc_cmd, cwd=SPEC, stdout=subprocess.PIPE, stderr=subprocess.STDOUT, env=env)
    rp = subprocess.Popen(rp_cmd, cwd=d, stdin=tlc.stdout, stdout=subprocess.PIPE, stderr=subprocess.STDOUT, text=True)
    tlc.stdout.close()
    out, _ = rp.communicate()
    tlc.wait()
    open(os.path.join(d, "tlc.log"), "w").write(out)
    if tlc.returncode == 124:
        raise ToolError("TLC simulation timed out in stage %s" % tag)
    errs = [l for l in out.splitlines() if l.startswith("Error:") or "is violated" in l]
    if errs or rp.returncode != 0:
        sys.stderr.write(out[-3000:])
        raise ToolError("TLC simulation reported an error in stage %s: %s" % (tag, errs[:3]))
    stats = json.load(open(os.path.join(d, "stats.json")))
    viols = [json.loads(l) for l in open(os.path.join(d, "viol.ndjson"))]
    m = re.search(r"(\d[\d,]*) states checked", out)
    info = {"states": int(m.group(1).replace(",", "")) if m else stats["behaviours"] * depth, "wall_s": round(time.time() - t0, 1)}
    log("sim stage %s: %d histories replayed (x2 modes), %d calls compared, mismatches %s, %.1fs" % (
        tag, stats["behaviours"], stats["calls"], stats["mismatches"], info["wall_s"]))
    return info, stats, viols


def tlc_model(tag, module, consts, invariants, workers=None, timeout_s=1800, init="GInit", nxt="GNext", extra="",
              env_extra=None, simulate=None):
    """Model-check only (no replay). Returns tlcinfo + raw output."""
    d = os.path.join(WORK, tag)
    shutil.rmtree(d, ignore_errors=True)
    os.makedirs(d)
    cfg = os.path.join(d, "mc.cfg")
    write_cfg(cfg, consts, invariants, init, nxt, extra)
    workers = workers or NCPU
    env = dict(os.environ, VERIF_DATA=os.path.join(ROOT, "data"))
    if env_extra:
        env.update(env_extra)
    cmd = ["timeout", str(timeout_s), TLC, "-workers", str(workers), "-metadir", os.path.join(d, "meta"),
           "-cleanup", "-noGenerateSpecTE", "-config", cfg]
    if simulate:
        cmd += simulate
    cmd.append(module)
    t0 = time.time()
    p = run(cmd, cwd=SPEC, stdout=subprocess.PIPE, stderr=subprocess.STDOUT, text=True, env=env)
    open(os.path.join(d, "tlc.log"), "w").write(p.stdout)
    info = parse_tlc_log(p.stdout)
    info["wall_s"] = round(time.time() - t0, 1)
    info["rc"] = p.returncode
    info["out"] = p.stdout
    if p.returncode == 124:
        raise ToolError("TLC timed out in stage %s" % tag)
    return info


# ------------------------------------------------------------------------------------------
# recording + trace validation (impl -> spec)
# ------------------------------------------------------------------------------------------
def record(tag, profile, seed, count, mode="cases", unopt=False, workers=12):
    d = os.path.join(WORK, tag)
    shutil.rmtree(d, ignore_errors=True)
    os.makedirs(d)
    cmd = [BIN, "record", "--profile", profile, "--seed", str(seed), "--count", str(count), "--mode", mode,
           "--out", d, "--workers", str(workers)]
    if unopt:
        cmd.append("--unopt")
    t0 = time.time()
    p = run(cmd, stdout=subprocess.PIPE, stderr=subprocess.STDOUT, text=True)
    if p.returncode != 0:
        sys.stderr.write(p.stdout[-2000:])
        raise ToolError("record failed in stage %s" % tag)
    st = json.load(open(os.path.join(d, "record_stats.json")))
    st["wall_s"] = round(time.time() - t0, 1)
    return d, st


def record_suite(tag):
    """The repository's own test suite, built from REPO's working tree with the tracer hook and run with
    tracing on: every public call the 1032 tests make becomes a trace event."""
    d = os.path.join(WORK, tag)
    shutil.rmtree(d, ignore_errors=True)
    os.makedirs(os.path.join(d, "trace"))
    env = dict(os.environ, RUSTFLAGS="--cfg regexml_verif --check-cfg cfg(regexml_verif)",
               REGEXML_VERIF_TRACE=os.path.join(d, "trace"), CARGO_NET_OFFLINE="true")
    t0 = time.time()
    p = run(["cargo", "test", "--offline", "-p", "regexml", "--no-fail-fast", "--target-dir",
             os.path.join(HARN, "target", "suite")], cwd=REPO, stdout=subprocess.PIPE, stderr=subprocess.STDOUT,
            text=True, env=env)
    passed = sum(int(m.group(1)) for m in re.finditer(r"test result: \w+\. (\d+) passed", p.stdout))
    failed = sum(int(m.group(1)) for m in re.finditer(r"(\d+) failed;", p.stdout))
    if passed == 0:
        sys.stderr.write(p.stdout[-3000:])
        raise ToolError("traced test suite did not run")
    st = {"tests_passed": passed, "tests_failed": failed, "wall_s": round(time.time() - t0, 1)}
    log("traced test suite: %d passed, %d failed, %.1fs" % (passed, failed, st["wall_s"]))
    return d, st


def cps_s(a):
    try:
        return "".join(chr(c) for c in a)
    except Exception:
        return "<bad>"


def index_trace(path):
    """line number (1-based) -> context of the event: pattern, flags, input, call"""
    regs, its, ctx = {}, {}, {}
    for n, line in enumerate(open(path, encoding="utf-8"), 1):
        try:
            e = json.loads(line)
        except Exception:
            ctx[n] = {"call": "unparsable"}
            continue
        ev = e.get("ev")
        c = {"call": ev, "observed": e.get("res"), "cut": e.get("cut", 0)}
        if ev == "compile":
            info = {"pat_s": cps_s(e["pat"]), "flags": cps_s(e["flags"]), "x": e.get("xpath", True),
                    "unopt": e.get("unopt", False)}
            if e["res"].get("k") == "ok":
                regs[e["res"]["rid"]] = info
            c.update(info)
            c["s_s"] = ""
        elif ev in ("is_match", "replace_all", "tokenize", "analyze"):
            c.update(regs.get(e.get("rid"), {}))
            c["s_s"] = cps_s(e.get("s", []))
            if "repl" in e:
                c["repl"] = cps_s(e["repl"])
            if ev in ("tokenize", "analyze") and e["res"].get("k") == "ok":
                its[e["res"]["it"]] = dict(c)
        elif ev in ("tok_next", "ana_next"):
            base = its.get(e.get("it"), {})
            c.update({k: base.get(k) for k in ("pat_s", "flags", "x", "unopt", "s_s")})
            # cut-off notes accumulate over the life of an iterator (a missed match shows up at a later item)
            base["cutacc"] = int(base.get("cutacc", 0)) | int(e.get("cut", 0))
            c["cut"] = base["cutacc"]
        ctx[n] = c
    return ctx


MISMATCH_RE = re.compile(r'^"MISMATCH (\d+) (\S+) (.*)"$')
STATS_RE = re.compile(r'^"TRACE-STATS (.*)"$')


def validate_traces(tag, rec_dir, timeout_s=1800, parallel=None):
    """One single-worker TLC per trace file, run side by side.  Returns (totals, violations)."""
    files = sorted(glob.glob(os.path.join(rec_dir, "trace", "*.ndjson")))
    files = [f for f in files if os.path.getsize(f) > 0]
    parallel = parallel or min(NCPU, 16)
    procs = []
    totals = {"files": len(files), "lines": 0, "consumed": 0, "compared": 0, "unspec": 0, "weak": 0, "unfollowed": 0,
              "states": 0}
    viols = []
    pending = list(files)
    running = []
    t0 = time.time()

    def start(f):
        d = os.path.join(rec_dir, "tlc_" + os.path.basename(f))
        os.makedirs(d, exist_ok=True)
        env = dict(os.environ, VERIF_DATA=os.path.join(ROOT, "data"), TRACE=f, TLC_XSS="1g", TLC_XMX="3g", TLC_XMN="256m")
        out = open(os.path.join(d, "tlc.log"), "w")
        p = subprocess.Popen(["timeout", str(timeout_s), TLC, "-workers", "1", "-metadir", os.path.join(d, "meta"),
                              "-cleanup", "-noGenerateSpecTE", "-config", "ApiTrace.cfg", "ApiTrace.tla"],
                             cwd=SPEC, stdout=out, stderr=subprocess.STDOUT, env=env)
        return (p, f, d, out)

    while pending or running:
        while pending and len(running) < parallel:
            running.append(start(pending.pop(0)))
        time.sleep(0.2)
        still = []
        for (p, f, d, out) in running:
            if p.poll() is None:
                still.append((p, f, d, out))
                continue
            out.close()
            text = open(os.path.join(d, "tlc.log")).read()
            if p.returncode == 124:
                raise ToolError("TLC timed out validating %s" % f)
            unescape = lambda s: s.replace('\\"', '"').replace("\\\\", "\\")
            stats = None
            ctx = None
            for line in text.splitlines():
                m = STATS_RE.match(line)
                if m:
                    stats = json.loads(unescape(m.group(1)))
                m = MISMATCH_RE.match(line)
                if m:
                    if ctx is None:
                        ctx = index_trace(f)
                    n, kind = int(m.group(1)), m.group(2)
                    c = ctx.get(n, {})
                    try:
                        exp = json.loads(unescape(m.group(3)))[0]
                    except Exception:
                        exp = m.group(3)
                    viols.append({"kind": kind, "pat_s": c.get("pat_s"), "flags": c.get("flags"), "x": c.get("x", True),
                                  "unopt": c.get("unopt", False), "s_s": c.get("s_s"), "call": c.get("call"),
                                  "repl": c.get("repl"), "expected": exp, "observed": c.get("observed"),
                                  "cut": c.get("cut", 0), "trace": f, "line": n})
            info = parse_tlc_log(text)
            if stats is None or stats["consumed"] != stats["lines"] or info["errors"]:
                sys.stderr.write(text[-3000:])
                raise ToolError("trace %s not consumed / TLC error (%s)" % (f, info["errors"][:2]))
            for k in ("lines", "consumed", "compared", "unspec", "weak", "unfollowed"):
                totals[k] += stats[k]
            totals["states"] += info["distinct"]
        running = still
    # faults noted by the recorder's parent (calls that never returned)
    fp = os.path.join(rec_dir, "faults.ndjson")
    if os.path.exists(fp):
        for line in open(fp, encoding="utf-8"):
            e = json.loads(line)
            viols.append({"kind": e["kind"], "pat_s": e.get("pat_s"), "flags": e.get("flags"), "x": e.get("x", True),
                          "unopt": e.get("unopt", False), "s_s": e.get("s_s"), "call": e.get("call"),
                          "expected": e.get("expected"), "observed": e.get("observed", {"k": e["kind"]}),
                          "cut": e.get("cut", 0)})
    totals["wall_s"] = round(time.time() - t0, 1)
    log("trace stage %s: %d files, %d events, %d compared, %d weak, %d unspec, %d mismatches, %.1fs" % (
        tag, totals["files"], totals["lines"], totals["compared"], totals["weak"], totals["unspec"], len(viols),
        totals["wall_s"]))
    return totals, viols


def run_trace_spec(tag, trace_file, module, cfg, timeout_s=1800, xmx="4g"):
    """One single-worker TLC over one trace file with the given trace spec. -> (stats, mismatches[(line, kind, json)])"""
    d = os.path.join(WORK, tag)
    os.makedirs(d, exist_ok=True)
    env = dict(os.environ, VERIF_DATA=os.path.join(ROOT, "data"), TRACE=trace_file, TLC_XSS="1g", TLC_XMX=xmx)
    p = run(["timeout", str(timeout_s), TLC, "-workers", "1", "-metadir", os.path.join(d, "meta_" + os.path.basename(trace_file)),
             "-cleanup", "-noGenerateSpecTE", "-config", cfg, module], cwd=SPEC, stdout=subprocess.PIPE,
            stderr=subprocess.STDOUT, text=True, env=env)
    open(os.path.join(d, "tlc_%s.log" % os.path.basename(trace_file)), "w").write(p.stdout)
    if p.returncode == 124:
        raise ToolError("TLC timed out on %s" % trace_file)
    unescape = lambda s: s.replace('\\"', '"').replace("\\\\", "\\")
    stats, mism, bad = None, [], []
    for line in p.stdout.splitlines():
        m = STATS_RE.match(line)
        if m:
            stats = json.loads(unescape(m.group(1)))
        m = MISMATCH_RE.match(line)
        if m:
            try:
                info = json.loads(unescape(m.group(3)))[0]
            except Exception:
                info = m.group(3)
            mism.append((int(m.group(1)), m.group(2), info))
        if line.startswith('"BADSPLIT'):
            bad.append(line)
    info = parse_tlc_log(p.stdout)
    if stats is None or stats["consumed"] != stats["lines"] or info["errors"] or bad:
        sys.stderr.write(p.stdout[-3000:])
        raise ToolError("trace %s not consumed / TLC error %s %s" % (trace_file, info["errors"][:2], bad[:2]))
    stats["states"] = info["distinct"]
    return stats, mism


def unicode_splits():
    """every code point at which some reference predicate may change (so that runs never straddle one)"""
    gc = json.load(open(os.path.join(ROOT, "data", "gc14.json")))["segs"]
    bl = json.load(open(os.path.join(ROOT, "data", "blocks.json")))["blocks"]
    xc = json.load(open(os.path.join(ROOT, "data", "xmlchars.json")))
    pts = set()
    for lo, hi, _ in gc:
        pts.add(lo); pts.add(hi + 1)
    for b in bl:
        pts.add(b["lo"]); pts.add(b["hi"] + 1)
    for lo, hi in xc["namestart"] + xc["namechar_extra"]:
        pts.add(lo); pts.add(hi + 1)
    for w in xc["ws"]:
        pts.add(w); pts.add(w + 1)
    for b in (57344, 63744, 983040, 1048574, 1048576, 1114110):
        pts.add(b)
    return sorted(p for p in pts if p <= 0x10FFFF)


def sweep_unicode(tag):
    d = os.path.join(WORK, tag)
    shutil.rmtree(d, ignore_errors=True)
    os.makedirs(d)
    sp = os.path.join(d, "splits.json")
    json.dump(unicode_splits(), open(sp, "w"))
    t0 = time.time()
    p = run([BIN, "sweep", "unicode", "--out", d, "--blocks", os.path.join(ROOT, "data", "blocks.json"), "--splits", sp,
             "--threads", str(NCPU)], stdout=subprocess.PIPE, stderr=subprocess.STDOUT, text=True)
    if p.returncode != 0:
        sys.stderr.write(p.stdout[-2000:])
        raise ToolError("sweep unicode failed")
    st = json.loads(p.stdout.strip().splitlines()[-1])
    st["sweep_wall_s"] = round(time.time() - t0, 1)
    # shard the runs over several TLC processes (each shard repeats the header line)
    lines = open(os.path.join(d, "unicode.ndjson")).read().splitlines()
    head, body = lines[0], lines[1:]
    nsh = min(NCPU, 12)
    per = (len(body) + nsh - 1) // nsh
    files = []
    for i in range(nsh):
        part = body[i * per:(i + 1) * per]
        if not part:
            continue
        f = os.path.join(d, "shard%02d.ndjson" % i)
        open(f, "w").write("\n".join([head] + part) + "\n")
        files.append(f)
    return d, st, files


def validate_facts(tag, path, shards=12):
    """FactsTrace.tla over a file of facts events (obligations of the compile-time facts + Engine.tla lowering)."""
    lines = open(path).read().splitlines()
    if not lines:
        return [], {"lines": 0, "compared": 0, "states": 0}
    files = []
    nsh = max(1, min(shards, len(lines) // 25))
    per = (len(lines) + nsh - 1) // nsh
    for i in range(nsh):
        part = lines[i * per:(i + 1) * per]
        if part:
            f = "%s.shard%02d" % (path, i)
            open(f, "w").write("\n".join(part) + "\n")
            files.append(f)
    tt, mm = parallel_trace_specs(tag + "_facts", files, "FactsTrace.tla", "FactsTrace.cfg")
    # FactsTrace reports WITNESSES: an input on which the operator tree the code built, or one of the facts it derived,
    # is wrong according to the model.  A witness becomes a violation only when the running code, called on it, gives a
    # result the specification rejects (ApiTrace.tla on the trace of those calls).
    cands, seen, per = [], set(), {}
    for (f, line, kind, info) in mm:
        ev = json.loads(open(f).read().splitlines()[line - 1])
        if not isinstance(info, dict):
            continue
        inp = info.get("input", [])
        key = (cps_s(ev["pat"]), cps_s(ev["flags"]), ev["xpath"], tuple(inp))
        pk = key[:3]
        if key in seen or per.get(pk, 0) >= 4:
            continue
        seen.add(key)
        per[pk] = per.get(pk, 0) + 1
        cands.append({"pat": ev["pat"], "flags": ev["flags"], "x": ev["xpath"], "input": inp, "start": info.get("start", 0),
                      "kind": kind, "info": info})
    viols = confirm_witnesses(tag + "_confirm", cands[:200]) if cands else []
    tt["witnesses"] = len(cands)
    tt["witnesses_confirmed"] = len(viols)
    if cands and not viols:
        log("stage %s: %d witness(es) from FactsTrace, none confirmed by the running code (first: %s)" % (
            tag, len(cands), json.dumps({"pat": cps_s(cands[0]["pat"]), "flags": cps_s(cands[0]["flags"]),
                                         "input": cps_s(cands[0]["input"]), "info": cands[0]["info"]})[:400]))
    return viols, tt


def confirm_witnesses(tag, cands):
    """Call the real code (tracer on) on each witness input - and on its suffix from the witness start - and validate
    the recorded trace with ApiTrace.tla.  Returns the mismatches ApiTrace finds (ordinary violations)."""
    d = os.path.join(WORK, tag)
    shutil.rmtree(d, ignore_errors=True)
    os.makedirs(os.path.join(d, "trace"))
    env = dict(os.environ, REGEXML_VERIF_TRACE=os.path.join(d, "trace"))
    viols = []
    jobs = []
    for n, c in enumerate(cands):
        inputs = [c["input"]]
        if c["start"] > 0:
            inputs.append(c["input"][c["start"]:])
        calls = []
        for s in inputs:
            calls += [{"op": "is_match", "s": s, "r": []}, {"op": "analyze", "s": s, "r": []},
                      {"op": "tokenize", "s": s, "r": []}, {"op": "replace", "s": s, "r": [91, 36, 48, 93]}]
        jobs.append({"id": n + 1, "pat": c["pat"], "flags": c["flags"], "x": c["x"], "unopt": False, "calls": calls})
    for j in jobs:
        try:
            subprocess.run([BIN, "worker"], input=json.dumps(j) + "\n", stdout=subprocess.PIPE, text=True, env=env, timeout=60)
        except subprocess.TimeoutExpired:
            viols.append({"kind": "hang", "pat_s": cps_s(j["pat"]), "flags": cps_s(j["flags"]), "x": j["x"],
                          "s_s": cps_s(j["calls"][0]["s"]), "call": "is_match", "expected": "returns", "observed": {"k": "hang"}, "cut": 0})
    tt, vv = validate_traces(tag, d)
    return viols + vv


def sweep_classes(tag, seed, nrand, full_limit):
    d = os.path.join(WORK, tag)
    shutil.rmtree(d, ignore_errors=True)
    os.makedirs(d)
    fin, pin = os.path.join(d, "full_in.ndjson"), os.path.join(d, "pts_in.ndjson")
    p = run([sys.executable, os.path.join(ROOT, "tools", "classgen.py"), str(seed), str(nrand), fin, pin, str(full_limit)],
            stdout=subprocess.PIPE, text=True)
    if p.returncode != 0:
        raise ToolError("classgen failed")
    gen = json.loads(p.stdout.strip().splitlines()[-1])
    outs = []
    for (inp, flag, name) in ((fin, ["--full"], "full_out.ndjson"), (pin, [], "pts_out.ndjson")):
        o = os.path.join(d, name)
        p = run([BIN, "sweep", "classes", "--in", inp, "--out", o, "--threads", str(NCPU)] + flag,
                stdout=subprocess.PIPE, stderr=subprocess.STDOUT, text=True)
        if p.returncode != 0:
            sys.stderr.write(p.stdout[-2000:])
            raise ToolError("sweep classes failed")
        outs.append(o)
    # shard for TLC
    files = []
    for o in outs:
        lines = open(o).read().splitlines()
        nsh = max(1, min(12, len(lines) // 20))
        per = (len(lines) + nsh - 1) // nsh
        for i in range(nsh):
            part = lines[i * per:(i + 1) * per]
            if part:
                f = "%s.shard%02d" % (o, i)
                open(f, "w").write("\n".join(part) + "\n")
                files.append(f)
    # the interval form of the category data agrees with the segment table (once per check)
    env = dict(os.environ, VERIF_DATA=os.path.join(ROOT, "data"), TRACE=files[0])
    p = run([TLC, "-workers", "1", "-metadir", os.path.join(d, "meta_data"), "-cleanup", "-noGenerateSpecTE", "-config",
             "ClassData.cfg", "ClassTrace.tla"], cwd=SPEC, stdout=subprocess.PIPE, stderr=subprocess.STDOUT, text=True, env=env)
    if '"DATA-OK"' not in p.stdout or "Error" in p.stdout:
        sys.stderr.write(p.stdout[-2000:])
        raise ToolError("data/cativ14.json disagrees with data/gc14.json")
    tot, mm = parallel_trace_specs(tag, files, "ClassTrace.tla", "ClassTrace.cfg")
    viols = []
    for (f, line, kind, info) in mm:
        ev = json.loads(open(f).read().splitlines()[line - 1])
        viols.append({"kind": "class", "pat_s": cps_s(ev["pat"]), "flags": cps_s(ev["flags"]), "s_s": "", "call": ev["ev"],
                      "expected": info, "observed": None, "cut": 0})
    samples = [cps_s(json.loads(l)["pat"]) for l in open(pin).read().splitlines()[:400:80]]
    st = {"classes": gen["classes"], "full_sweeps": gen["full"], "events": tot["lines"], "compared": tot["compared"],
          "unspec": tot["unspec"], "states": tot["states"], "samples": [{"class_expressions": samples}]}
    log("classes stage %s: %d classes (%d full sweeps), %d events, %d mismatches" % (tag, gen["classes"], gen["full"],
                                                                                   tot["lines"], len(viols)))
    return d, st, viols


def check_block_generator():
    """cargo run -p regexml-ucd-blocks (the generator shipped with the repository) must reproduce regexml/src/block.rs,
    and both must agree with data/blocks.json (derived from Blocks.txt + CompatBlocks.txt)."""
    problems = []
    p = run(["cargo", "run", "--offline", "-q", "-p", "regexml-ucd-blocks", "--target-dir", os.path.join(HARN, "target", "blocks")],
            cwd=REPO, stdout=subprocess.PIPE, stderr=subprocess.PIPE, text=True)
    if p.returncode != 0:
        raise ToolError("cannot run regexml-ucd-blocks: " + p.stderr[-500:])
    trip = lambda txt: re.findall(r'name:\s*"([^"]*)",\s*start:\s*0x([0-9A-Fa-f]+),\s*end:\s*0x([0-9A-Fa-f]+)', txt)
    gen = [(n, int(a, 16), int(b, 16)) for n, a, b in trip(p.stdout)]
    src = [(n, int(a, 16), int(b, 16)) for n, a, b in trip(open(os.path.join(REPO, "regexml", "src", "block.rs")).read())]
    ref = [(b["raw"], b["lo"], b["hi"]) for b in json.load(open(os.path.join(ROOT, "data", "blocks.json")))["blocks"]]
    if gen != src:
        problems.append("regexml/src/block.rs is not what regexml-ucd-blocks generates (first difference: %s)" %
                        str(next(((a, b) for a, b in zip(gen, src) if a != b), (len(gen), len(src)))))
    if src != ref:
        problems.append("block.rs differs from Blocks.txt + CompatBlocks.txt (first difference: %s)" %
                        str(next(((a, b) for a, b in zip(src, ref) if a != b), (len(src), len(ref)))))
    nall = len(re.findall(r"^\s+[A-Z0-9_]+,$", open(os.path.join(REPO, "regexml", "src", "block.rs")).read(), re.M))
    return {"problems": problems, "summary": {"generated": len(gen), "block_rs": len(src), "blocks_txt": len(ref)}}


def parallel_trace_specs(tag, files, module, cfg, parallel=12):
    """run_trace_spec over many files side by side"""
    import concurrent.futures
    tot = {"lines": 0, "consumed": 0, "states": 0, "compared": 0, "unspec": 0, "differ": 0}
    mism = []
    with concurrent.futures.ThreadPoolExecutor(max_workers=parallel) as ex:
        futs = {ex.submit(run_trace_spec, tag, f, module, cfg): f for f in files}
        for fu in concurrent.futures.as_completed(futs):
            st, mm = fu.result()
            for k in tot:
                tot[k] += st.get(k, 0)
            mism += [(futs[fu],) + m for m in mm]
    return tot, mism


# ------------------------------------------------------------------------------------------
# known findings
# ------------------------------------------------------------------------------------------
def load_known():
    """KNOWN_FINDINGS.txt lines:
         open: property=<id> callsite=<name> what=<text>
               (a result produced while the engine's own search cut-off <name> fired, as noted by the
                cfg(regexml_verif) hook: force_progress / zero_length_history)
         open: property=<id> kind=<kind> pat=<json string> flags=<str|-> input=<json string> what=<text>
         fixed: property=<id> <commit> <what failed>        (suppresses nothing)
       The file is never written at check time."""
    path = os.path.join(ROOT, "KNOWN_FINDINGS.txt")
    out = []
    if not os.path.exists(path):
        return out
    for line in open(path, encoding="utf-8"):
        line = line.strip()
        if not line.startswith("open:"):
            continue
        m = re.match(r"open: property=(\S+) callsite=(\S+) what=(.*)$", line)
        if m:
            out.append({"property": m.group(1), "callsite": m.group(2), "what": m.group(3)})
            continue
        m = re.match(r"open: property=(\S+) kind=(\S+) pat=(\"(?:[^\"\\]|\\.)*\") flags=(\S*) input=(\"(?:[^\"\\]|\\.)*\") what=(.*)$", line)
        if not m:
            raise ToolError("unparsable KNOWN_FINDINGS line: " + line)
        out.append({"property": m.group(1), "kind": m.group(2), "pat": json.loads(m.group(3)),
                    "flags": "" if m.group(4) == "-" else m.group(4), "input": json.loads(m.group(5)),
                    "what": m.group(6)})
    return out


CUT_BITS = {"force_progress": 1, "zero_length_history": 2}


def match_known(known, prop, v):
    if v.get("kind") == "impure":
        return None          # a purity violation is decided on the real code alone; no finding excuses it
    for k in known:
        if k["property"] != prop:
            continue
        if "callsite" in k:
            if int(v.get("cut") or 0) & CUT_BITS.get(k["callsite"], 0):
                return k
        elif k["kind"] == v["kind"] and k["pat"] == v.get("pat_s") \
                and k["flags"] == v.get("flags", "") and k["input"] == v.get("s_s", ""):
            return k
    return None


# ------------------------------------------------------------------------------------------
# evidence
# ------------------------------------------------------------------------------------------
def write_evidence(prop, tier, seed, cov, wall, nviol, assumptions):
    os.makedirs(os.path.join(ROOT, "evidence"), exist_ok=True)
    ev = {"property_id": prop, "tier": tier, "seed": seed, "level": "model_checking", "coverage": cov,
          "assumptions": assumptions, "wall_s": round(wall, 1), "violations": nviol}
    with open(os.path.join(ROOT, "evidence", prop + ".json"), "w") as f:
        json.dump(ev, f, indent=1)


def report(prop, viols, tier):
    """Print KNOWN-FINDING / VIOLATION lines; write replay files. Returns number of unknown violations."""
    known = load_known()
    vdir = os.path.join(ROOT, "violations", prop)
    shutil.rmtree(vdir, ignore_errors=True)
    seen_known = {}
    unknown = []
    for v in viols:
        k = match_known(known, prop, v)
        if k is not None:
            seen_known[id(k)] = k
        else:
            unknown.append(v)
    for k in seen_known.values():
        print("KNOWN-FINDING: property=%s %s" % (prop, k["what"]))
    # one VIOLATION line per distinct (kind, pattern, flags); at most 20
    groups = {}
    for v in unknown:
        groups.setdefault((v["kind"], v.get("pat_s"), v.get("flags"), v.get("x", True), v.get("src", "")), []).append(v)
    if groups:
        os.makedirs(vdir, exist_ok=True)
    for n, (key, vs) in enumerate(sorted(groups.items(), key=lambda kv: (len(kv[0][1] or ""), str(kv[0])))):
        if n >= 20:
            break
        path = os.path.join(vdir, "v%02d.json" % n)
        json.dump({"property": prop, "tier": tier, "cases": vs[:10]}, open(path, "w"), indent=1, ensure_ascii=False)
        v = vs[0]
        print("VIOLATION property=%s replay=%s   # %s pattern=%r flags=%r input=%r call=%s expected=%s observed=%s" % (
            prop, path, v["kind"], v.get("pat_s"), v.get("flags"), v.get("s_s"), v.get("call"),
            json.dumps(v.get("expected"))[:120], json.dumps(v.get("observed"))[:120]))
    return len(groups)
