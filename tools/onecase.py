#!/usr/bin/env python3
"""Triage helper: run explicit cases through the real code (tracer on) and validate the trace with ApiTrace.tla.
   usage: onecase.py '<pattern>' '<flags>' '<input>' [repl] [--xsd]      (several cases: repeat with --)"""
import sys, os, json, subprocess, shutil
sys.path.insert(0, os.path.dirname(os.path.abspath(__file__)))
import orch

def main(argv):
    xsd = "--xsd" in argv
    argv = [a for a in argv if a != "--xsd"]
    cases, cur = [], []
    for a in argv + ["--"]:
        if a == "--":
            if cur:
                cases.append(cur)
            cur = []
        else:
            cur.append(a)
    orch.build_harness()
    d = os.path.join(orch.WORK, "onecase")
    shutil.rmtree(d, ignore_errors=True)
    os.makedirs(os.path.join(d, "trace"))
    cs = lambda s: [ord(c) for c in s]
    for n, c in enumerate(cases):
        pat, flags, inp = c[0], c[1], c[2]
        repl = c[3] if len(c) > 3 else "[$0]"
        job = {"id": n + 1, "pat": cs(pat), "flags": cs(flags), "x": not xsd, "unopt": False,
               "calls": [{"op": "is_match", "s": cs(inp), "r": []}, {"op": "analyze", "s": cs(inp), "r": []},
                         {"op": "tokenize", "s": cs(inp), "r": []}, {"op": "replace", "s": cs(inp), "r": cs(repl)}]}
        env = dict(os.environ, REGEXML_VERIF_TRACE=os.path.join(d, "trace"))
        p = subprocess.run([orch.BIN, "worker"], input=json.dumps(job) + "\n", stdout=subprocess.PIPE, text=True, env=env, timeout=120)
        print("code:", p.stdout.strip()[:1500])
    tt, vv = orch.validate_traces("onecase", d)
    print(json.dumps(tt))
    for v in vv:
        print("MISMATCH", json.dumps({k: v[k] for k in ("kind", "pat_s", "flags", "s_s", "call", "expected", "observed", "cut")})[:1200])
    return 1 if vv else 0

if __name__ == "__main__":
    sys.exit(main(sys.argv[1:]))
