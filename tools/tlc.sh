#!/bin/sh
# TLC launcher used by every check: serial GC with a small young generation (fresh-page faults are
# very expensive in this VM: ParallelGC with a large heap spends 80% of its time in the kernel).
CP=/opt/veriftools/tla/tla2tools.jar:/opt/veriftools/tla/CommunityModules-deps.jar
exec java -XX:+UseSerialGC -Xmx${TLC_XMX:-6g} -Xmn${TLC_XMN:-512m} -Xss${TLC_XSS:-64m} ${TLC_JAVA_OPTS:-} -cp $CP tlc2.TLC "$@"
