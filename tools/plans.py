"""Per-property plans: which TLC configurations generate behaviours, which recorders produce traces,
which mismatch kinds belong to which property."""
import json, os, sys, time, traceback
import orch
from orch import ToolError, log

SEM = {"m", "span", "group", "tok", "anaflat", "tree", "nullable", "compile", "pair"}
FAULTS = {"panic", "internal", "abort", "badjob"}

KINDS = {
    "C01": {"m", "pair_m"},
    "C02": {"span", "tok", "anaflat", "weakspan", "weakend", "repl"},
    "C03": {"group", "tree", "repl"},
    "C04": {"tok", "anaflat", "span", "partition", "repl"} | FAULTS,
    "C05": set(FAULTS),
    "C06": {"hang", "items"},
    "C07": {"compile", "compile_kind"},
    "C08": {"optdiff", "facts", "lowering"} | SEM,
    "C09": set(SEM) | {"class"},
    "C10": set(SEM) | {"unicode"},
    "C11": set(SEM) | {"repl", "weakspan", "weakend"},
    "C12": set(SEM) | {"repl", "weakspan", "weakend"},
    "C13": set(SEM) | FAULTS | {"repl", "replerr"},
    "C14": set(SEM) | {"compile_kind"},
    "C15": {"repl", "replerr", "group", "span"},
    "C16": {"nullable", "zerolen"},
    "C17": set(SEM) | {"compile_kind"},
    "C18": set(SEM) | FAULTS | {"history", "impure", "repl", "replerr", "partition", "items"},
    "C19": set(SEM) | {"repl", "weakspan", "weakend"},
    "C20": set(SEM) | {"pair", "pair_m", "lowering"},
}

BASE = {"Leaves": "<-LvSem", "Quants": "<-QAll", "MaxSize": 4, "Shapes": "<-ShapesAll", "FlagSets": "<-OnlyNoFlags",
        "MaxGroups": 2, "SeqCost": 0, "AltCost": 1, "Alpha": "{97, 98}", "MaxLen": 3, "Repl2": "<-ReplSpan",
        "EmitMode": '"print"', "Variants": '{"base"}'}
THEOREMS = ["T1_RoundTrip", "T2_OrderFree", "T3_Leftmost", "T5_Partition", "T7_Nullable"]


def G(tag, invs=None, **kw):
    c = dict(BASE)
    c.update(kw)
    return {"type": "gen", "tag": tag, "consts": c, "invs": (invs if invs is not None else THEOREMS) + ["Emit"]}


TOKBASE = {"Mode": '"tok"', "Toks": '"core"', "MaxToks": 4, "Dialects": "{TRUE}", "FlagAlpha": '"std"',
           "LitFlags": '"all"', "Alpha": "{97, 98}", "MaxLen": 2, "Repl2": "<-ReplSpan"}


def K(tag, invs=None, **kw):
    """token-string / flag-string / literal generators (MCTok.tla)"""
    c = dict(TOKBASE)
    c.update(kw)
    return {"type": "gen", "tag": tag, "module": "MCTok.tla", "init": "TInit", "next": "TNext", "consts": c,
            "invs": (invs or []) + ["EmitTok"]}


def R(tag, maxrepl):
    return {"type": "gen", "tag": tag, "module": "MCRepl.tla", "init": "RInit", "next": "RNext",
            "consts": {"MaxRepl": maxrepl, "Alpha": "{97}", "MaxLen": 0, "Repl2": "<-ReplSpan"},
            "invs": ["T12_ReplLaw", "T20_ReplRefines", "EmitRepl"]}


def T(tag, profile, nq, nt, mode="cases", unopt=False):
    return {"type": "trace", "tag": tag, "profile": profile, "count": (nq, nt), "mode": mode, "unopt": unopt}


SUITE = {"type": "suite", "tag": "suite"}


# quick / thorough stage lists --------------------------------------------------------------
def plan(prop, tier):
    q = tier == "quick"
    if prop == "C01":
        return [G("sem", MaxSize=4, MaxLen=3 if q else 4)] + \
               ([] if q else [G("sem5", Leaves="<-LvCore", Quants="<-QSmall", MaxSize=5, MaxLen=3),
                              G("bref5", Leaves="<-LvBref", Quants="<-QSmall", MaxSize=5, MaxLen=4)]) + \
               [G("varlen", Leaves="<-LvVarLen", Quants="<-QVarLen", MaxSize=3 if q else 4, MaxLen=4),
                G("flags", Leaves="<-LvAnch", Quants="<-QSmall", MaxSize=3 if q else 4, FlagSets="<-AllFlags",
                  Alpha="{97, 10}", MaxLen=3),
                G("fixed", Leaves="<-LvOptFix", Quants="<-QFix", MaxSize=3 if q else 4, MaxLen=5, invs=["T1_RoundTrip", "T2_OrderFree"]),
                G("dynempty", Leaves="<-LvDynEmpty", Quants="<-QCount2", MaxSize=3, MaxLen=2 if q else 3, FlagSets="<-FlagsM",
                  Alpha="{97, 98}", invs=["T1_RoundTrip", "T2_OrderFree", "T7_Nullable"]),
                G("altnull", Leaves="<-LvAltNull", Quants="<-QOptOnly", MaxSize=3, Alpha="{120, 97, 98}", MaxLen=3,
                  Shapes="<-ShapesNoGrp", invs=["T1_RoundTrip", "T2_OrderFree"]),
                T("rand", "general", 2000, 40000)] + ([] if q else [SUITE])
    if prop == "C02":
        return [G("prio", Leaves="<-LvCore", Quants="<-QAll", MaxSize=4, MaxLen=3 if q else 4)] + \
               ([] if q else [G("prio5", Leaves="<-LvCore", Quants="<-QSmall", MaxSize=5, MaxLen=3)]) + [
                G("varlen", Leaves="<-LvVarLen", Quants="<-QVarLen", MaxSize=3 if q else 4, MaxLen=4),
                G("altnull", Leaves="<-LvAltNull", Quants="<-QOptOnly", MaxSize=3 if q else 4, Alpha="{120, 97, 98}", MaxLen=3 if q else 4,
                  Shapes="<-ShapesNoGrp"),
                G("astral", Leaves="<-LvAstral", Quants="<-QSmall", MaxSize=3 if q else 4, Alpha="{66560, 769, 97}",
                  MaxLen=3),
                G("ml", Leaves="<-LvAnch", Quants="<-QSmall", MaxSize=3 if q else 4, FlagSets="<-FlagsMS",
                  Alpha="{97, 10}", MaxLen=4),
                T("rand", "spans", 1500, 30000), T("astralr", "astral", 500, 10000), T("mlr", "anchors", 1000, 20000)]
    if prop == "C03":
        return [dict(G("caps", Leaves="<-LvAB", Quants="<-QSmall", MaxSize=5 if q else 6, MaxGroups=3, Repl2="<-ReplGroups",
                       MaxLen=3 if q else 4)),
                G("caps12", Leaves="<-LvG12", Quants="<-QOptOnly", MaxSize=2, MaxGroups=13, Repl2="<-ReplG12", MaxLen=3,
                  invs=["T1_RoundTrip", "T3_Leftmost"]),
                dict(G("nest", Leaves="<-LvNest", Quants="<-QBasic" if q else "<-QBasicLazy", MaxSize=5, MaxGroups=9, Shapes="<-ShapesNoGrp", MaxLen=3,
                       Repl2="<-ReplG2", invs=["T1_RoundTrip", "T3_Leftmost"]), trace=q),   # (traced in the quick tier: the thorough trace is too large for one TLC)
                G("mlcaps", Leaves="<-LvMlCaps", Quants="<-QOptOnly", MaxSize=5 if q else 6, MaxGroups=9, FlagSets="<-FlagsM",
                  Shapes="<-ShapesNoGrp", Alpha="{97, 98, 10}", MaxLen=3, Repl2="<-ReplG2", invs=["T1_RoundTrip", "T3_Leftmost"]),
                G("brefalt", Leaves="<-LvBrefAlt", Quants="<-QBrefAlt", MaxSize=4, MaxLen=4, MaxGroups=2,
                  Shapes="<-ShapesNoGrp", Repl2="<-ReplG2", invs=["T1_RoundTrip", "T3_Leftmost"]),
                dict(G("nestclear", Leaves="<-LvNestClear", Quants="<-QNestClear", MaxSize=4, MaxLen=3 if q else 4, MaxGroups=2,
                       Shapes="<-ShapesNcgSeq", Alpha="{97, 98, 99}", Repl2="<-ReplG2", invs=["T1_RoundTrip"]), trace=True),
                G("clsparen", Leaves="<-LvClsParen", Quants="<-QPlusOnly", MaxSize=4, MaxLen=2, MaxGroups=3, Shapes="<-ShapesGrpSeq",
                  Alpha="{97, 98, 40}", Repl2="<-ReplG2", invs=["T1_RoundTrip", "T3_Leftmost"]),
                T("rand", "groups", 2000, 40000), T("mlg", "mlgroups", 1000, 20000)]
    if prop == "C04":
        return [G("part", Leaves="<-LvCore", Quants="<-QSmall", MaxSize=4, MaxLen=3 if q else 4,
                  Variants='{"base", "xsd"}', invs=THEOREMS + ["T20_ScanRefines"])] + \
               ([] if q else [G("part5", Leaves="<-LvCore", Quants="<-QBasicLazy", MaxSize=5, MaxLen=3,
                                Variants='{"base", "xsd"}')]) + [
                G("astral", Leaves="<-LvAstral", Quants="<-QSmall", MaxSize=3 if q else 4, Alpha="{66560, 769, 97}",
                  MaxLen=3, Variants='{"base", "xsd"}'),
                G("ml", Leaves="<-LvAnch", Quants="<-QSmall", MaxSize=3 if q else 4, FlagSets="<-FlagsMS",
                  Alpha="{97, 10}", MaxLen=4, Repl2="<-ReplHash"),
                G("casei", Leaves="<-LvCaseL1", Quants="<-QBasic", MaxSize=2 if q else 3, FlagSets="<-FlagsI",
                  Alpha="{233, 201, 53}", MaxLen=3, Repl2="<-ReplHash"),
                G("emptygrp", Leaves="<-LvEmptyGrp", Quants="<-QPlusOnly", Shapes="<-ShapesSeq", MaxSize=3, MaxGroups=3, MaxLen=3,
                  Repl2="<-ReplG2", invs=["T1_RoundTrip", "T3_Leftmost", "T5_Partition"]),      # no ? * { anywhere, yet groups match nothing
                T("rand", "spans", 1000, 20000), T("astralr", "astral", 1000, 20000),
                T("mlr", "anchors", 1000, 20000)] + ([] if q else [SUITE])
    if prop == "C05":
        return [K("tok", Toks='"core"', MaxToks=4 if q else 5, Dialects="{TRUE, FALSE}"),
                K("wide", Toks='"wide"', MaxToks=3 if q else 4),
                K("lit", Mode='"lit"', Toks='"meta"', MaxToks=2 if q else 3),
                G("valid", Leaves="<-LvAll", Quants="<-QAll", MaxSize=3, MaxLen=2, invs=["T1_RoundTrip"]),
                G("nest", Leaves="<-LvNest", Quants="<-QBasic" if q else "<-QBasicLazy", MaxSize=5, MaxGroups=9, Shapes="<-ShapesNoGrp", MaxLen=3,
                  invs=["T1_RoundTrip"]),
                G("brefi", Leaves="<-LvBrefI", Quants="<-QBasic", MaxSize=4, MaxLen=3, FlagSets="<-FlagsI", Alpha="{97, 65, 98}",
                  invs=["T1_RoundTrip"]),                                   # back-references near the end of the input, both case modes
                G("fixed", Leaves="<-LvOptFix", Quants="<-QFix", MaxSize=3, MaxLen=4 if q else 5, invs=["T1_RoundTrip"]),   # strides of fixed-length repeats
                T("mut", "general", 2000, 40000, mode="mutants"), T("garbage", "general", 2000, 60000, mode="garbage"),
                T("bounds", "general", 2200, 21000, mode="bounds"), T("rand", "groups", 1500, 30000),
                T("dial", "dialect", 1000, 20000, mode="mutants")] + ([] if q else [SUITE])
    if prop == "C06":
        return [G("loops", Leaves="<-LvLoop", Quants="<-QAll", MaxSize=4, Alpha="{97, 98, 10}",
                  MaxLen=3 if q else 4, FlagSets="<-FlagsM")] + \
               ([] if q else [G("loops5", Leaves="<-LvLoop", Quants="<-QBasicLazy", MaxSize=5, Alpha="{97, 98, 10}",
                                MaxLen=3, FlagSets="<-FlagsM")]) + [
                G("dynempty", Leaves="<-LvDynEmpty", Quants="<-QCount2", MaxSize=3, MaxLen=2, FlagSets="<-FlagsM", Alpha="{97, 98}",
                  invs=["T1_RoundTrip", "T7_Nullable"]),          # a nullability verdict that is wrong makes tokenize endless
                {"type": "machine", "tag": "machine", "size": 3 if q else 4, "len": 3},
                T("rand", "loops", 2000, 40000), T("bounds", "general", 2200, 21000, mode="bounds"),
                T("garbage", "general", 1000, 30000, mode="garbage")]
    if prop == "C07":
        return [K("tok", Toks='"core"', MaxToks=4 if q else 5),
                K("wide", Toks='"wide"', MaxToks=3 if q else 4),
                K("class", Toks='"class"', MaxToks=5 if q else 6),
                K("grp", Toks='"grp"', MaxToks=6),
                K("bref10", Toks='"bref10"', MaxToks=4 if q else 5, Alpha="{97, 48, 49}", MaxLen=2, invs=[]),
                K("flags", Mode='"flags"', MaxToks=3),
                K("tokx", Toks='"xws"', MaxToks=4 if q else 5, FlagAlpha='"x"'),
                K("tokxcat", Toks='"xcat"', MaxToks=5 if q else 6, FlagAlpha='"x"', Alpha="{97, 32, 93}"),
                G("valid", Leaves="<-LvAll", Quants="<-QAll", MaxSize=3, MaxLen=1, invs=["T1_RoundTrip"]),
                T("mut", "general", 2000, 40000, mode="mutants"), T("rand", "classes", 1000, 20000)]
    if prop == "C13":
        return [K("lit", Mode='"lit"', Toks='"meta"', MaxToks=2 if q else 3, invs=["T10_QLiteral"]),
                K("litov", Mode='"lit"', Toks='"ab"', MaxToks=4 if q else 5, LitFlags='"qi"', invs=["T10_QLiteral"]),
                K("litparen", Mode='"lit"', Toks='"paren"', MaxToks=4 if q else 5, LitFlags='"qi"', invs=["T10_QLiteral"]),
                K("litsigma", Mode='"lit"', Toks='"sigma"', MaxToks=3 if q else 4, LitFlags='"qi"', invs=["T10_QLiteral"]),
                T("rand", "repl", 1500, 30000)]
    if prop == "C15":
        return [R("repl", 3 if q else 4), T("rand", "repl", 2000, 40000)]
    if prop == "C08":
        o = {"also_unopt": True, "facts": True}
        T18 = THEOREMS + ["T21_OpSem"] + ([] if q else ["T18_SearchSound"])   # (T18 on the big stages only in the thorough tier)
        T18a = THEOREMS + ["T18_SearchSound", "T21_OpSem"]
        return [dict(G("shapes", Leaves="<-LvOpt", Quants="<-QOpt8", MaxSize=3, MaxLen=3 if q else 4,
                       FlagSets="<-FlagsIM", Alpha="{97, 65, 10}", invs=T18), **o)] + \
               ([] if q else [dict(G("shapes4", Leaves="<-LvOpt6", Quants="<-QSmall", MaxSize=4, MaxLen=3,
                                     FlagSets="<-FlagsIM", Alpha="{97, 65, 10}"), **o)]) + [
                dict(G("anch", Leaves="<-LvAnch", Quants="<-QBasicLazy", MaxSize=3 if q else 4, FlagSets="<-FlagsMS",
                       Alpha="{97, 10}", MaxLen=3, invs=T18a), **o),
                dict(G("fixed", Leaves="<-LvOptFix", Quants="<-QFix", MaxSize=4, FlagSets="<-OnlyNoFlags",
                       Alpha="{97, 98}", MaxLen=5 if q else 6,
                       invs=["T1_RoundTrip", "T2_OrderFree", "T21_OpSem"] + ([] if q else ["T18_SearchSound"])), **o),
                dict(G("sem", MaxSize=3 if q else 4, MaxLen=3), **o),
                dict(G("prefix", Leaves="<-LvABEol", Quants="<-QOptOnly", Shapes="<-ShapesSeq", MaxSize=4, MaxLen=5 if q else 6,
                       invs=["T1_RoundTrip", "T18_SearchSound", "T21_OpSem"]), **o),        # literal prefixes that overlap themselves
                dict(G("catcase", Leaves="<-LvCatCase", Quants="<-QCatCase", MaxSize=3, MaxLen=3, FlagSets="<-FlagsI", Shapes="<-ShapesSeq",
                       Alpha="{97, 65, 49}", invs=["T1_RoundTrip", "T2_OrderFree", "T21_OpSem"]), **o),
                dict(G("seqinit", Leaves="<-LvSeqInit", Quants="<-QSeqInit", MaxSize=4, MaxLen=3 if q else 4, Shapes="<-ShapesSeq",
                       invs=["T1_RoundTrip", "T2_OrderFree", "T21_OpSem"]), **o),
                dict(G("casei", Leaves="<-LvCaseOpt", Quants="<-QBasicLazy", MaxSize=3, MaxLen=3, FlagSets="<-FlagsI",
                       Alpha="{233, 201, 955}", invs=["T1_RoundTrip", "T2_OrderFree", "T18_SearchSound"]), **o),
                T("rand", "general", 2000, 40000, unopt=True), T("case", "case", 1000, 20000, unopt=True),
                {"type": "facts", "tag": "facts", "profiles": [("general", 400, 6000), ("anchors", 300, 4000), ("case", 300, 4000)]}]
    if prop == "C09":
        return [{"type": "classes", "tag": "cls", "nrand": 300 if q else 3000, "full": 150 if q else 1200},
                K("class", Toks='"class"', MaxToks=4 if q else 6),
                G("wscls", Leaves="<-LvWsCls", Quants="<-QOptOnly", MaxSize=2, MaxLen=2, Variants='{"base", "ws"}', Alpha="{97, 32, 93, 9}",
                  invs=["T1_RoundTrip", "T11_XStrip"])]                  # class members that are white space, with and without flag x
    if prop == "C10":
        return [{"type": "unicode", "tag": "uni"}, T("names", "classes", 200, 2000, mode="names"),
                T("pairs", "classes", 800, 6000, mode="escpairs")]
    if prop == "C11":
        return [G("ascii", Leaves="<-LvCase", Quants="<-QSmall", MaxSize=3, FlagSets="<-FlagsI",
                  Alpha="{97, 65, 66, 49}", MaxLen=3)] + \
               ([] if q else [G("ascii4", Leaves="<-LvCase", Quants="<-QBasic", MaxSize=4, FlagSets="<-FlagsI",
                                Alpha="{97, 65, 66}", MaxLen=2)]) + [
                G("latin1", Leaves="<-LvCaseL1", Quants="<-QSmall", MaxSize=3, FlagSets="<-FlagsI",
                  Alpha="{233, 201, 53}", MaxLen=3),
                G("greekcyr", Leaves="<-LvCaseGr", Quants="<-QSmall", MaxSize=3, FlagSets="<-FlagsI",
                  Alpha="{955, 923, 1073, 1041}", MaxLen=2 if q else 3),
                G("deseret", Leaves="<-LvCaseDs", Quants="<-QSmall", MaxSize=3, FlagSets="<-FlagsI",
                  Alpha="{66600, 66560, 97}", MaxLen=3),
                G("punct", Leaves="<-LvPunct", Quants="<-QBasic", MaxSize=2 if q else 3, FlagSets="<-FlagsI",
                  Alpha="{91, 123, 94, 126, 64, 96, 95, 127, 92, 124}", MaxLen=2),
                G("catcase", Leaves="<-LvCatCase", Quants="<-QCatCase", MaxSize=3, MaxLen=3, FlagSets="<-FlagsI", Shapes="<-ShapesSeq",
                  Alpha="{97, 65, 49}"),
                G("ranges", Leaves="<-LvCaseRange", Quants="<-QBasic", MaxSize=2, FlagSets="<-FlagsI",
                  Alpha="{103, 71, 101, 1105, 1025, 1078, 64, 181, 924, 956}", MaxLen=2),
                T("rand", "case", 2000, 40000)]
    if prop == "C12":
        return [G("anch", Leaves="<-LvAnch", Quants="<-QBasicLazy", MaxSize=3 if q else 4, FlagSets="<-FlagsMS",
                  Alpha="{97, 10, 13}", MaxLen=3 if q else 4),
                G("dynempty", Leaves="<-LvDynEmpty", Quants="<-QCount2", MaxSize=3, MaxLen=3, FlagSets="<-FlagsM", Alpha="{97, 98, 10}",
                  invs=["T1_RoundTrip", "T2_OrderFree"]),               # quantified alternations of anchors and letters
                T("rand", "anchors", 2000, 40000)]
    if prop == "C14":
        return [G("ws", Leaves="<-LvWs", Quants="<-QSmall" if q else "<-QAll", MaxSize=3, MaxLen=2 if q else 3, Variants='{"ws"}',
                  invs=["T1_RoundTrip", "T11_XStrip"]),
                G("wscls", Leaves="<-LvWsCls", Quants="<-QOptOnly", MaxSize=2, MaxLen=2, Variants='{"ws"}', Alpha="{97, 32, 93, 9}",
                  invs=["T1_RoundTrip", "T11_XStrip"]),                 # white space INSIDE classes is a member: inputs contain it
                G("ws2", Leaves="<-LvWs", Quants="<-QBasic", MaxSize=2, MaxLen=2, Variants='{"ws2"}', invs=["T1_RoundTrip"]),
                G("wsnest", Leaves="<-LvWsNest", Quants="<-QNone", Shapes="<-ShapesGrpSeq", MaxSize=3 if q else 4, MaxGroups=4, MaxLen=2,
                  Variants='{"ws"}', invs=["T1_RoundTrip", "T11_XStrip"]),
                T("rand", "dialect", 1500, 30000)]
    if prop == "C16":
        return [G("null", Leaves="<-LvSem", Quants="<-QAll", MaxSize=4, MaxLen=2 if q else 4),
                G("dynempty", Leaves="<-LvDynEmpty", Quants="<-QCount2", MaxSize=3 if q else 4, MaxLen=2, FlagSets="<-FlagsM",
                  Alpha="{97, 98}")] + \
               ([] if q else [G("null5", Leaves="<-LvLoop", Quants="<-QBasicLazy", MaxSize=5, MaxLen=2)]) + [
                K("lit", Mode='"lit"', Toks='"meta"', MaxToks=1 if q else 2, invs=["T10_QLiteral"]),   # flag q: only "" matches empty
                T("rand", "general", 1500, 30000)]
    if prop == "C17":
        return [K("tok", Toks='"wide"', MaxToks=3 if q else 4, Dialects="{TRUE, FALSE}"),
                K("flags", Mode='"flags"', MaxToks=2 if q else 3, Dialects="{FALSE}"),
                G("lazyq", Leaves="<-LvAB", Quants="<-QDial", MaxSize=3, MaxLen=2, Variants='{"base", "xsd"}',
                  invs=["T1_RoundTrip"]),
                G("dial", Leaves="<-LvDial", Quants="<-QSmall", MaxSize=3 if q else 4, MaxLen=3, FlagSets="<-FlagsS",
                  Alpha="{97, 10}", Variants='{"base", "xsd"}', invs=THEOREMS + ["T13_Dialect"]),
                G("wsxsd", Leaves="<-LvWs", Quants="<-QBasic", MaxSize=2, MaxLen=2, Variants='{"ws", "wsxsd"}', Alpha="{97, 32}", invs=["T1_RoundTrip"]),
                G("xsdcaps", Leaves="<-LvAB", Quants="<-QBasic", MaxSize=4, MaxGroups=2, MaxLen=3, Repl2="<-ReplGroups",
                  Variants='{"base", "xsd"}', invs=["T1_RoundTrip", "T13_Dialect"]),      # groups and their captures under both dialects
                T("rand", "dialect", 2000, 40000)]
    if prop == "C18":
        return [{"type": "apimc", "tag": "mc", "consts": {"Depth": 6 if q else 8, "RegIds": "{1, 2}", "ItIds": "{1, 2}",
                                                        "PoolName": '"small"'}},
                {"type": "apisim", "tag": "sim", "num": 1000 if q else 4000, "depth": 14,
                 "consts": {"Depth": 14, "RegIds": "{1, 2, 3}", "ItIds": "{1, 2, 3}", "PoolName": '"wide"'}},
                {"type": "apisim", "tag": "simzl", "num": 300 if q else 3000, "depth": 9,
                 "consts": {"Depth": 9, "RegIds": "{1}", "ItIds": "{1, 2}", "PoolName": '"zl"'}},
                T("threads", "general", 800, 2500, mode="threads")] + ([] if q else [SUITE])
    if prop == "C19":
        return [dict(G("bref", Leaves="<-LvBref", Quants="<-QSmall", MaxSize=5, MaxLen=4 if q else 5,
                       FlagSets="<-OnlyNoFlags")),
                G("brefi", Leaves="<-LvBrefI", Quants="<-QBasic", MaxSize=4, MaxLen=3, FlagSets="<-FlagsI",
                  Alpha="{97, 65, 98}"),
                G("brefalt", Leaves="<-LvBrefAlt", Quants="<-QBrefAlt", MaxSize=4, MaxLen=4 if q else 5, MaxGroups=2,
                  Shapes="<-ShapesNoGrp", FlagSets="<-OnlyNoFlags"),
                K("bref10", Toks='"bref10"', MaxToks=4 if q else 5, Alpha="{97, 48, 49}", MaxLen=3, invs=[]),   # \10 against \1 + 0
                dict(G("nestclear", Leaves="<-LvNestClear", Quants="<-QNestClear", MaxSize=4, MaxLen=3 if q else 4, MaxGroups=2,
                       Shapes="<-ShapesNcgSeq", Alpha="{97, 98, 99}", Repl2="<-ReplG2", invs=["T1_RoundTrip"]), trace=True),
                T("rand", "brefs", 2000, 40000)]
    if prop == "C20":
        return [G("laws", Leaves="<-LvLaws", Quants="<-QLaws", MaxSize=3, MaxLen=3 if q else 4, MaxGroups=2,
                  Variants='{"laws"}', invs=["T1_RoundTrip", "T16_Laws"])] + \
               ([] if q else [G("laws4", Leaves="<-LvLaws", Quants="<-QBasic", MaxSize=4, MaxLen=3, MaxGroups=2,
                                Variants='{"laws"}', invs=["T1_RoundTrip", "T16_Laws"])]) + [\

                G("lawsi", Leaves="<-LvAB", Quants="<-QBasic", MaxSize=3, MaxLen=3, FlagSets="<-AllFlags",
                  Alpha="{97, 65, 10}", Variants='{"laws"}', invs=["T16_Laws"]),
                G("lawsfix", Leaves="<-LvLawFix", Quants="<-QLawFix", MaxSize=3 if q else 4, MaxLen=5, Alpha="{97, 98}",
                  Variants='{"laws"}', invs=["T1_RoundTrip", "T16_Laws"]),
                G("lawscat", Leaves="<-LvCatCase", Quants="<-QCatCase", MaxSize=3, MaxLen=3, FlagSets="<-FlagsI", Shapes="<-ShapesSeq",
                  Alpha="{97, 65, 49}", Variants='{"laws"}', invs=["T1_RoundTrip", "T16_Laws", "T21_OpSem"]),
                G("lawsdyn", Leaves="<-LvDynEmpty", Quants="<-QCount2", MaxSize=3, MaxLen=2 if q else 3, Alpha="{97, 98}",
                  Variants='{"laws"}', invs=["T1_RoundTrip", "T16_Laws"]),              # counted repeats of bodies that are empty only at an anchor
                G("lawsvar", Leaves="<-LvVarLen", Quants="<-QVarLen", MaxSize=3, MaxLen=4 if q else 5,
                  Variants='{"laws"}', invs=["T1_RoundTrip", "T16_Laws", "T21_OpSem"]),
                T("rand", "general", 1500, 30000),
                {"type": "facts", "tag": "lower", "profiles": [("general", 400, 6000), ("loops", 300, 4000)]}]
    return []


def run_check(prop, tier):
    seed = int(os.environ.get("VERIF_SEED", "1"))
    t0 = time.time()
    orch.build_harness()
    stages = plan(prop, tier)
    if not stages:
        raise ToolError("no plan for %s" % prop)
    tot = {"states": 0, "transitions": 0, "behaviours": 0, "cases": 0, "calls": 0, "compared": {}, "mismatches": {},
           "unspec_cases": 0, "indefinite_cases": 0, "nontrivial": 0, "skipped_jobs": 0}
    samples = []
    allviol = []
    stage_info = []
    for st in stages:
        tag = "%s_%s_%s" % (prop, tier, st["tag"])
        if st["type"] == "gen":
            info, stats, viols = orch.tlc_gen_replay(tag, st.get("module", "MCGen.tla"), st["consts"], st["invs"],
                                                     also_unopt=st.get("also_unopt", False), facts=st.get("facts", False),
                                                     trace=st.get("trace", False),
                                                     init=st.get("init", "GInit"), nxt=st.get("next", "GNext"))
            tot["states"] += info["distinct"]
            tot["transitions"] += info["states"]
            for k in ("behaviours", "cases", "calls", "unspec_cases", "indefinite_cases", "nontrivial", "skipped_jobs"):
                tot[k] += stats.get(k, 0)
            for k in ("compared", "mismatches"):
                for kk, vv in stats[k].items():
                    tot[k][kk] = tot[k].get(kk, 0) + vv
            for kk, vv in stats.get("constructs", {}).items():
                tot.setdefault("constructs", {})[kk] = tot.get("constructs", {}).get(kk, 0) + vv
            samples += stats["samples"][:2]
            for v in viols:
                v["src"] = tag
            allviol += viols
            stage_info.append({"stage": st["tag"], "consts": {k: str(v) for k, v in st["consts"].items()},
                               "invariants": st["invs"], "tlc_states": info["distinct"], "wall_s": info["wall_s"],
                               "behaviours": stats["behaviours"],
                               "facts_patterns_checked": stats.get("facts_patterns_checked", 0),
                               "trace_events_validated": stats.get("trace_events", 0)})
        elif st["type"] == "machine":
            consts = {"Leaves": "<-LvMachine", "Quants": "<-QMachine", "MaxSize": st["size"], "Shapes": "<-MShapes",
                      "FlagSets": "<-MFlags", "MaxGroups": 2, "SeqCost": 0, "AltCost": 1, "MAlpha": "{97, 98}",
                      "MMaxLen": st["len"], "EmptyRule": "TRUE"}
            d = os.path.join(orch.WORK, tag)
            import shutil
            shutil.rmtree(d, ignore_errors=True); os.makedirs(d)
            lines = ["SPECIFICATION MSpec", "CHECK_DEADLOCK FALSE", "CONSTANTS"] + \
                    ["  %s %s" % (k, v) if str(v).startswith("<-") else "  %s = %s" % (k, v) for k, v in consts.items()] + \
                    ["INVARIANTS MRefines MWellFormed", "PROPERTY MTerminates"]
            open(os.path.join(d, "mc.cfg"), "w").write("\n".join(lines) + "\n")
            import subprocess, time as _t
            t1 = _t.time()
            p = subprocess.run(["timeout", "3000", orch.TLC, "-workers", "8", "-metadir", os.path.join(d, "meta"), "-cleanup",
                                "-noGenerateSpecTE", "-config", os.path.join(d, "mc.cfg"), "Machine.tla"], cwd=orch.SPEC,
                               stdout=subprocess.PIPE, stderr=subprocess.STDOUT, text=True,
                               env=dict(os.environ, VERIF_DATA=os.path.join(orch.ROOT, "data")))
            open(os.path.join(d, "tlc.log"), "w").write(p.stdout)
            info = orch.parse_tlc_log(p.stdout)
            if info["errors"] or not info["finished"] or p.returncode != 0:
                sys.stderr.write(p.stdout[-3000:])
                raise ToolError("Machine.tla: TLC reported %s" % info["errors"][:3])
            tot["states"] += info["distinct"]; tot["transitions"] += info["states"]
            log("machine stage %s: %d states, refinement + termination hold, %.1fs" % (tag, info["distinct"], _t.time() - t1))
            stage_info.append({"stage": st["tag"], "module": "Machine.tla", "consts": consts, "tlc_states": info["distinct"],
                               "invariants": ["MRefines", "MWellFormed"], "liveness": "MTerminates (WF on the machine step)",
                               "wall_s": round(_t.time() - t1, 1), "exhaustive": True})
        elif st["type"] == "apimc":
            info = orch.tlc_model(tag, "MCApi.tla", st["consts"], ["T5_Inv", "T6_Inv", "T14_Pure"], init="MInit", nxt="MNext",
                                  extra="VIEW View\nPROPERTY T6_Progress")
            if info["errors"] or not info["finished"]:
                sys.stderr.write(info["out"][-3000:])
                raise ToolError("MCApi: TLC reported %s" % info["errors"][:3])
            tot["states"] += info["distinct"]
            tot["transitions"] += info["states"]
            stage_info.append({"stage": st["tag"], "consts": st["consts"], "invariants": ["T5_Inv", "T6_Inv", "T14_Pure", "T6_Progress"],
                               "tlc_states": info["distinct"], "wall_s": info["wall_s"], "exhaustive": True})
        elif st["type"] == "apisim":
            info, stats, viols = orch.tlc_sim_replay(tag, "MCApi.tla", st["consts"], ["T5_Inv", "T6_Inv", "T14_Pure", "EmitHist"],
                                                     st["num"], st["depth"], seed, "MInit", "MNext")
            tot["states"] += info["states"]
            tot["transitions"] += info["states"]
            tot["behaviours"] += stats["behaviours"]
            tot["calls"] += stats["calls"]
            tot["cases"] += stats["cases"]
            tot["nontrivial"] += stats["nontrivial"]
            for k in ("compared", "mismatches"):
                for kk, vv in stats[k].items():
                    tot[k][kk] = tot[k].get(kk, 0) + vv
            samples += stats["samples"][:1]
            for v in viols:
                v["src"] = tag
            allviol += viols
            stage_info.append({"stage": st["tag"], "histories": stats["behaviours"], "depth": st["depth"], "consts": st["consts"],
                               "modes": ["sequential on shared objects", "4 threads sharing the Regex objects"],
                               "wall_s": info["wall_s"]})
        elif st["type"] == "facts":
            nev = ncmp = ndiff = nwit = 0
            for (prof, nq, nt) in st["profiles"]:
                ftag = tag + "_" + prof
                d, rs = orch.record(ftag, prof, seed, nq if tier == "quick" else nt, "facts", False)
                fv, tt = orch.validate_facts(ftag, os.path.join(d, "facts.ndjson"))
                nev += tt["lines"]; ncmp += tt["compared"]; ndiff += tt.get("differ", 0); nwit += tt.get("witnesses", 0)
                tot["states"] += tt["states"]; tot["transitions"] += tt["states"]
                for v in fv:
                    v["src"] = ftag
                allviol += fv
            tot["trace_events"] = tot.get("trace_events", 0) + nev
            tot["trace_compared"] = tot.get("trace_compared", 0) + ncmp
            tot["trace_jobs"] = tot.get("trace_jobs", 0) + nev
            stage_info.append({"stage": st["tag"], "facts_events": nev, "patterns_with_obligations_checked": ncmp,
                               "trees_or_facts_differing_from_model": ndiff, "witnesses_reported_by_spec": nwit,
                               "inputs_per_pattern": "all strings up to length 3 (5 where tree or facts differ from the model's) "
                                                     "over the pattern's alphabet + 'x' + LF"})
        elif st["type"] == "unicode":
            d, us, files = orch.sweep_unicode(tag)
            tt, mm = orch.parallel_trace_specs(tag, files, "UnicodeTrace.tla", "UnicodeTrace.cfg")
            tot["states"] += tt["states"]
            tot["transitions"] += tt["states"]
            tot["trace_events"] = tot.get("trace_events", 0) + tt["lines"]
            tot["trace_compared"] = tot.get("trace_compared", 0) + tt["lines"] * us["escapes"]
            tot["trace_jobs"] = tot.get("trace_jobs", 0) + us["segments"]
            gen = orch.check_block_generator()
            samples.append({"unicode_sweep": us, "block_generator": gen["summary"]})
            for (f, line, kind, info) in mm:
                allviol.append({"kind": "unicode", "pat_s": json.dumps(info, ensure_ascii=False)[:300], "flags": "", "s_s": "",
                                "call": "sweep", "expected": info, "observed": None, "cut": 0, "src": tag})
            for g in gen["problems"]:
                allviol.append({"kind": "unicode", "pat_s": g, "flags": "", "s_s": "", "call": "block generator",
                                "expected": None, "observed": None, "cut": 0, "src": tag})
            stage_info.append({"stage": st["tag"], "sweep": us, "runs_validated": tt["lines"], "shards": len(files),
                               "exhaustive_over_scalars": True, "block_generator": gen["summary"]})
        elif st["type"] == "classes":
            d, cs, viols = orch.sweep_classes(tag, seed, st["nrand"], st["full"])
            tot["states"] += cs["states"]
            tot["transitions"] += cs["states"]
            tot["trace_events"] = tot.get("trace_events", 0) + cs["events"]
            tot["trace_compared"] = tot.get("trace_compared", 0) + cs["compared"]
            tot["trace_jobs"] = tot.get("trace_jobs", 0) + cs["classes"]
            samples += cs["samples"]
            for v in viols:
                v["src"] = tag
            allviol += viols
            stage_info.append({"stage": st["tag"], "classes": cs})
        elif st["type"] in ("trace", "suite"):
            if st["type"] == "trace":
                n = st["count"][0] if tier == "quick" else st["count"][1]
                d, rs = orch.record(tag, st["profile"], seed, n, st["mode"], st["unopt"])
            else:
                d, rs = orch.record_suite(tag)
            tt, viols = orch.validate_traces(tag, d)
            tot["states"] += tt["states"]
            tot["transitions"] += tt["states"]
            tot["trace_events"] = tot.get("trace_events", 0) + tt["lines"]
            tot["trace_compared"] = tot.get("trace_compared", 0) + tt["compared"]
            tot["trace_weak"] = tot.get("trace_weak", 0) + tt["weak"]
            tot["trace_unspec"] = tot.get("trace_unspec", 0) + tt["unspec"]
            tot["trace_jobs"] = tot.get("trace_jobs", 0) + rs.get("jobs", rs.get("tests_passed", 0))
            tot["skipped_jobs"] += rs.get("skipped_jobs", 0)
            samples += rs.get("samples", [])[:2]
            for v in viols:
                v["src"] = tag
            allviol += viols
            stage_info.append({"stage": st["tag"], "recorder": rs if st["type"] == "suite" else
                               {k: rs[k] for k in ("profile", "mode", "seed", "jobs", "faults")},
                               "events": tt["lines"], "compared": tt["compared"], "weak_clause_checks": tt["weak"],
                               "unspec": tt["unspec"], "wall_s": tt["wall_s"]})
    mine = [v for v in allviol if v["kind"] in KINDS[prop]]
    nviol = orch.report(prop, mine, tier)
    cov = {"states": tot["states"], "transitions": tot["transitions"],
           "traces_validated_against_impl": tot["behaviours"] + tot.get("trace_jobs", 0),
           "trace_events_validated": tot.get("trace_events", 0), "trace_events_compared": tot.get("trace_compared", 0),
           "trace_weak_clause_checks": tot.get("trace_weak", 0), "trace_events_unspec": tot.get("trace_unspec", 0),
           "samples": samples[:4] or [{"note": "no behaviour sampled"}],
           "evaluations": tot["calls"], "distinct_nontrivial": tot["nontrivial"],
           "rule": "behaviours are enumerated exhaustively by TLC inside the bounds of each stage; one behaviour = one "
                   "(pattern, flags, dialect) with every input up to the stage's length bound; non-trivial = pattern "
                   "text longer than one character; distinct by construction (TLC states)",
           "exhaustive": False, "exhaustive_part": "the gen stages (TLC enumeration inside the listed bounds)", "stages": stage_info, "cases": tot["cases"], "compared": tot["compared"],
           "mismatches_all_kinds": tot["mismatches"], "kinds_of_this_property": sorted(KINDS[prop]),
           "unspec_cases": tot["unspec_cases"], "indefinite_span_cases": tot["indefinite_cases"],
           "skipped_after_fault_cap": tot["skipped_jobs"],
           "pattern_constructs_replayed": tot.get("constructs", {})}
    orch.write_evidence(prop, tier, seed, cov, time.time() - t0, nviol,
                        ["TLC/SANY and the CommunityModules Json/IOUtils", "the reading of XSD 1.1 / F&O 3.1 encoded in spec/",
                         "harness JSON conversion and comparison code", "bounds of each stage as listed"])
    return 1 if nviol else 0


def main(argv):
    if not argv:
        print(__doc__)
        return 2
    try:
        if argv[0] == "setup":
            return setup()
        if argv[0] == "replay":
            return replay(argv[1])
        if argv[0] == "selftest":
            return selftest()
        if argv[0] == "plan":
            print(describe())
            return 0
        prop = argv[0]
        tier = argv[1] if len(argv) > 1 else os.environ.get("VERIF_TIER", "quick")
        return run_check(prop, tier)
    except ToolError as e:
        print("TOOL-ERROR: %s" % e, file=sys.stderr)
        return 2
    except Exception:
        traceback.print_exc()
        return 2


def setup():
    import subprocess, glob
    for f in sorted(glob.glob(os.path.join(orch.SPEC, "*.tla"))):
        p = subprocess.run(["tla-sany", os.path.basename(f)], cwd=orch.SPEC, stdout=subprocess.PIPE,
                           stderr=subprocess.STDOUT, text=True)
        if "*** Errors" in p.stdout or "Fatal" in p.stdout or p.returncode != 0:
            sys.stderr.write(p.stdout[-2000:])
            raise ToolError("SANY failed on " + f)
    orch.build_harness()
    return 0


def replay(path):
    """Re-run the cases of a violation file on the current tree (the expectation stored in the file was computed by
    TLC from the spec when the violation was found) and say whether the code still disagrees."""
    import subprocess
    orch.build_harness()
    d = json.load(open(path))
    still = 0
    for v in d["cases"]:
        if not isinstance(v.get("pat_s"), str):
            continue
        cs = lambda s: [ord(c) for c in (s or "")]
        call = (v.get("call") or "").split("#")[0]
        op = {"is_match": "is_match", "replace0": "replace", "replace2": "replace", "replace_all": "replace", "replace": "replace",
              "tokenize": "tokenize", "tok_next": "tokenize", "analyze": "analyze", "ana_next": "analyze"}.get(call, "is_match")
        repl = v.get("repl") or ("[$0]" if call != "replace2" else "".join(chr(c) for c in (v.get("repl2") or [])))
        job = {"id": 1, "pat": cs(v["pat_s"]), "flags": cs(v.get("flags")), "x": v.get("x", True), "unopt": bool(v.get("unopt")),
               "calls": [{"op": op, "s": cs(v.get("s_s")), "r": cs(repl)}]}
        try:
            p = subprocess.run([orch.BIN, "worker"], input=json.dumps(job) + "\n", stdout=subprocess.PIPE, text=True, timeout=60)
            rep = json.loads(p.stdout)
            obs = rep["res"][0] if rep["res"] else rep["compile"]
        except subprocess.TimeoutExpired:
            obs = {"k": "hang"}
        print("pattern=%r flags=%r input=%r call=%s\n   expected(spec) = %s\n   observed(then) = %s\n   observed(now)  = %s" % (
            v["pat_s"], v.get("flags"), v.get("s_s"), v.get("call"), json.dumps(v.get("expected"))[:300],
            json.dumps(v.get("observed"))[:300], json.dumps(obs)[:300]))
        then = v.get("observed") or {}
        if isinstance(then, dict) and {k: x for k, x in obs.items() if k not in ("cut", "capped", "extra")} == \
                {k: x for k, x in then.items() if k not in ("cut", "capped", "extra")}:
            still += 1
    print("%d case(s) still behave as recorded" % still)
    return 1 if still else 0


def selftest():
    """Demonstrate that the binding binds (DESIGN 4.4): a corrupted trace field is reported at exactly that line,
    a removed iterator step is reported at the next one, and no generator action / trace action is vacuous."""
    import random, shutil, subprocess, re, glob
    orch.build_harness()
    ok = True
    d, rs = orch.record("selftest_rec", "spans", 7, 150, "cases", False, workers=1)
    f = sorted(glob.glob(os.path.join(d, "trace", "*.ndjson")))[0]
    lines = open(f).read().splitlines()
    base_tot, base_v = orch.validate_traces("selftest_base", d)
    base_lines = {v["line"] for v in base_v}
    print("selftest: baseline trace %d events, %d mismatches (all must carry a cut-off note: %s)" % (
        len(lines), len(base_v), all(v["cut"] for v in base_v)))
    ok &= all(v["cut"] for v in base_v)

    def variant(name, new_lines):
        vd = os.path.join(orch.WORK, "selftest_" + name)
        shutil.rmtree(vd, ignore_errors=True)
        os.makedirs(os.path.join(vd, "trace"))
        open(os.path.join(vd, "trace", "t.ndjson"), "w").write("\n".join(new_lines) + "\n")
        tot, v = orch.validate_traces("selftest_" + name, vd)
        return v

    ev = [json.loads(l) for l in lines]
    # (a) flip one is_match result
    cand = [i for i, e in enumerate(ev) if e["ev"] == "is_match" and e["res"].get("k") == "ok" and (i + 1) not in base_lines
            and not e.get("cut")]
    i = cand[len(cand) // 2]
    e = json.loads(lines[i]); e["res"]["v"] = not e["res"]["v"]
    v = variant("flip", lines[:i] + [json.dumps(e)] + lines[i + 1:])
    hit = [x for x in v if x["line"] == i + 1 and x["kind"] == "m"]
    print("selftest (a) flipped is_match at line %d -> reported: %s" % (i + 1, bool(hit)))
    ok &= bool(hit) and len([x for x in v if x["line"] not in base_lines]) == 1
    # (b) drop one tok_next "some" line of an iterator with at least two items
    cand = [i for i, e in enumerate(ev) if e["ev"] == "tok_next" and e["res"].get("k") == "some"
            and ev[i + 1]["ev"] == "tok_next" and ev[i + 1]["res"].get("k") == "some" and ev[i + 1]["res"]["v"] != e["res"]["v"]]
    if cand:
        i = cand[0]
        v = variant("drop", lines[:i] + lines[i + 1:])
        hit = [x for x in v if x["line"] == i + 1 and x["kind"] == "tok"]
        print("selftest (b) dropped tok_next at line %d -> next line reported: %s" % (i + 1, bool(hit)))
        ok &= bool(hit)
    else:
        print("selftest (b) skipped: no suitable iterator in the sample"); ok = False
    # (c) shift a span: drop the first character of an analyze Match entry
    cand = [i for i, e in enumerate(ev) if e["ev"] == "ana_next" and e["res"].get("k") == "some" and "n" in e["res"]["v"]
            and len(e["res"]["v"]["n"]) >= 2]
    if cand:
        i = cand[0]
        e = json.loads(lines[i]); e["res"]["v"]["n"] = e["res"]["v"]["n"][1:]
        v = variant("shift", lines[:i] + [json.dumps(e)] + lines[i + 1:])
        hit = [x for x in v if x["line"] == i + 1]
        print("selftest (c) shortened a NonMatch at line %d -> reported: %s (%s)" % (i + 1, bool(hit), sorted({x["kind"] for x in hit})))
        ok &= bool(hit)
    # (d) vacuity: the small generator configuration produces every construct the builder has an action for
    info, stats, viols = orch.tlc_gen_replay("selftest_gen", "MCGen.tla", dict(BASE, MaxSize=3), THEOREMS + ["Emit"])
    need = ["group", "noncapturing", "alternation", "star", "plus", "optional", "counted", "lazy", "backref", "bol", "eol",
            "negclass", "dot", "empty_pattern"]
    missing = [c for c in need if stats["constructs"].get(c, 0) == 0]
    print("selftest (d) constructs in %d replayed behaviours: %s ; never produced: %s" % (stats["behaviours"], stats["constructs"], missing))
    ok &= not missing
    print("selftest: %s" % ("PASS" if ok else "FAIL"))
    return 0 if ok else 2


def describe():
    """Markdown table of what every check runs (generated from plan(); pasted into DESIGN.md appendix D)."""
    out = ["| property | tier | stage | kind | bounds / volume |", "|---|---|---|---|---|"]
    for prop in sorted(KINDS):
        for tier in ("quick", "thorough"):
            for st in plan(prop, tier):
                ty = st["type"]
                if ty == "gen":
                    c = st["consts"]
                    mod = st.get("module", "MCGen.tla")
                    if mod == "MCGen.tla":
                        b = "leaves %s, quantifiers %s, size <= %s, inputs over %s up to length %s, flags %s, variants %s" % (
                            c["Leaves"][2:], c["Quants"][2:], c["MaxSize"], c["Alpha"], c["MaxLen"], c["FlagSets"][2:], c["Variants"])
                    elif mod == "MCTok.tla":
                        b = "mode %s, tokens %s, up to %s tokens, dialects %s" % (c["Mode"], c["Toks"], c["MaxToks"], c["Dialects"])
                    else:
                        b = "replacement strings up to length %s" % c.get("MaxRepl")
                    kind = "TLC enumeration (%s) -> replay%s; invariants %s" % (mod, " + unoptimised differential" if st.get("also_unopt") else "",
                                                                                " ".join(i for i in st["invs"] if not i.startswith("Emit")))
                elif ty == "trace":
                    kind = "recorder (%s, mode %s%s) -> ApiTrace.tla" % (st["profile"], st["mode"], ", + unoptimised differential" if st["unopt"] else "")
                    b = "%d jobs" % (st["count"][0] if tier == "quick" else st["count"][1])
                elif ty == "suite":
                    kind, b = "the repository's 1032 tests, traced -> ApiTrace.tla", "about 3 400 events"
                elif ty == "facts":
                    kind = "recorder (facts hook) -> FactsTrace.tla (obligations of compile-time facts; Engine.tla lowering)"
                    b = ", ".join("%s %d" % (p, (nq if tier == "quick" else nt)) for p, nq, nt in st["profiles"])
                elif ty == "unicode":
                    kind, b = "sweep of all scalar values -> UnicodeTrace.tla", "744 escapes x 1 112 064 scalars"
                elif ty == "classes":
                    kind = "class sweeps -> ClassTrace.tla"
                    b = "516 enumerated + %d random class expressions, %d full sweeps" % (st["nrand"], st["full"])
                elif ty == "apimc":
                    kind, b = "TLC exhaustive (MCApi.tla), invariants T5 T6 T14, property T6_Progress", str(st["consts"])
                elif ty == "apisim":
                    kind, b = "TLC simulation (MCApi.tla) -> replay (sequential + 4 threads, purity differential)", "num=%d depth=%d %s" % (st["num"], st["depth"], st["consts"]["PoolName"])
                else:
                    kind, b = ty, ""
                out.append("| %s | %s | %s | %s | %s |" % (prop, tier, st["tag"], kind, b.replace("|", "\\|")))
    return "\n".join(out)
