-------------------------------- MODULE Gen --------------------------------
(* Pattern builder: a postfix stack machine whose reachable stacks are       *)
(* exactly the well-formed ASTs (module Render) up to a size bound, so that  *)
(* TLC enumerates patterns as STATES (in parallel) rather than as one giant  *)
(* constant set.  A finished pattern is paired with a flag set; inputs are   *)
(* enumerated inside the per-state evaluation (module MCGen).                *)
EXTENDS Render

CONSTANTS Leaves,      \* set of leaf ASTs (chr / dot / cls / bol / eol / bref)
          Quants,      \* set of [min, max, lazy, q]
          MaxSize,     \* bound on the number of builder steps that cost 1
          Shapes,      \* subset of {"grp","ncg","seq","alt","eps"}
          FlagSets,    \* set of flag records [i, m, s]
          MaxGroups,   \* bound on capturing groups
          SeqCost, AltCost

VARIABLES stk, sz, ph, fl
gvars == <<stk, sz, ph, fl>>

Eps == [k |-> "seq", xs |-> <<>>]
IsAtom(a)   == a.k \in {"chr", "dot", "cls", "bol", "eol", "bref", "grp", "ncg"}
IsPiece(a)  == IsAtom(a) \/ a.k = "rep"
IsBranch(a) == IsPiece(a) \/ a.k = "seq"
RECURSIVE Groups(_)
Groups(a) == CASE a.k = "grp" -> 1 + Groups(a.r)
               [] a.k \in {"ncg", "rep"} -> Groups(a.r)
               [] a.k \in {"seq", "alt"} -> FoldLeft(LAMBDA n, x : n + Groups(x), 0, a.xs)
               [] OTHER -> 0
Top == stk[Len(stk)]
Pop1 == SubSeq(stk, 1, Len(stk) - 1)
Pop2 == SubSeq(stk, 1, Len(stk) - 2)
Room(cost) == sz + cost + (IF Len(stk) > 1 THEN 0 ELSE 0) <= MaxSize

GInit == stk = <<>> /\ sz = 0 /\ ph = "build" /\ fl = NoFlags

PushLeaf == \E l \in Leaves : /\ ph = "build" /\ Room(1)
                             /\ stk' = Append(stk, l) /\ sz' = sz + 1 /\ UNCHANGED <<ph, fl>>
PushEps == /\ ph = "build" /\ "eps" \in Shapes /\ Room(1)
           /\ stk' = Append(stk, Eps) /\ sz' = sz + 1 /\ UNCHANGED <<ph, fl>>
Quant == \E q \in Quants : /\ ph = "build" /\ stk # <<>> /\ IsAtom(Top) /\ Room(1)
                           /\ stk' = Append(Pop1, [k |-> "rep", r |-> Top, min |-> q.min, max |-> q.max,
                                                   lazy |-> q.lazy, q |-> q.q])
                           /\ sz' = sz + 1 /\ UNCHANGED <<ph, fl>>
WrapGrp == /\ ph = "build" /\ "grp" \in Shapes /\ stk # <<>> /\ Room(1)
           /\ FoldLeft(LAMBDA n, x : n + Groups(x), 0, stk) < MaxGroups
           /\ stk' = Append(Pop1, [k |-> "grp", n |-> 0, r |-> Top])
           /\ sz' = sz + 1 /\ UNCHANGED <<ph, fl>>
WrapNcg == /\ ph = "build" /\ "ncg" \in Shapes /\ stk # <<>> /\ Room(1)
           /\ Top.k # "ncg"                                  \* (?:(?:x)) adds nothing
           /\ stk' = Append(Pop1, [k |-> "ncg", r |-> Top])
           /\ sz' = sz + 1 /\ UNCHANGED <<ph, fl>>
Seq2 == /\ ph = "build" /\ "seq" \in Shapes /\ Len(stk) >= 2 /\ Room(SeqCost)
        /\ LET a == stk[Len(stk) - 1]  b == Top IN
           /\ IsPiece(b) /\ (IsPiece(a) \/ (a.k = "seq" /\ a.xs # <<>>))
           /\ stk' = Append(Pop2, [k |-> "seq", xs |-> (IF a.k = "seq" THEN a.xs ELSE <<a>>) \o <<b>>])
        /\ sz' = sz + SeqCost /\ UNCHANGED <<ph, fl>>
Alt2 == /\ ph = "build" /\ "alt" \in Shapes /\ Len(stk) >= 2 /\ Room(AltCost)
        /\ LET a == stk[Len(stk) - 1]  b == Top IN
           /\ IsBranch(b) /\ (IsBranch(a) \/ a.k = "alt")
           /\ stk' = Append(Pop2, [k |-> "alt", xs |-> (IF a.k = "alt" THEN a.xs ELSE <<a>>) \o <<b>>])
        /\ sz' = sz + AltCost /\ UNCHANGED <<ph, fl>>
Finish == \E F \in FlagSets : /\ ph = "build" /\ Len(stk) = 1
                              /\ Number(stk[1]).st.ok                 \* every back-reference is to a closed group
                              /\ ph' = "done" /\ fl' = F /\ UNCHANGED <<stk, sz>>
GNext == PushLeaf \/ PushEps \/ Quant \/ WrapGrp \/ WrapNcg \/ Seq2 \/ Alt2 \/ Finish

Done == ph = "done"
Ast == Number(stk[1]).r
Ng == Number(stk[1]).st.ng
=============================================================================
