INIT CInit
NEXT CNext
CHECK_DEADLOCK FALSE
POSTCONDITION CAccepted
