-------------------------------- MODULE Beh --------------------------------
(* Behaviours for replay: from a SOURCE <<pattern text, flag text, dialect>> the spec's own Compile and   *)
(* API functions compute what every call must return on every input up to the bound.  Variable-free, so   *)
(* that every generator (pattern builder, token strings, literals, replacement strings) can reuse it.     *)
EXTENDS ApiOps

CONSTANTS Alpha, MaxLen, Repl2

(* ---- inputs -------------------------------------------------------------------- *)
Inputs == UNION {[1..n -> Alpha] : n \in 0..MaxLen}
InputSeq == SetToSeq(Inputs)


(* ---- the behaviours printed for replay -------------------------------------------------- *)
(* Every behaviour is computed from a SOURCE <<pattern text, flag text, dialect>> by the spec's own   *)
(* Compile: the generator only proposes sources (the rendered AST, the same text under the XSD        *)
(* dialect, with white space inserted under flag x, ...).                                             *)
FlagCps(F) == (IF F.i THEN <<105>> ELSE <<>>) \o (IF F.m THEN <<109>> ELSE <<>>) \o (IF F.s THEN <<115>> ELSE <<>>)
ReplSpan == <<91, 36, 48, 93>>                                                    \* "[$0]"
ReplHash == <<35>>                                                                \* "#": a metacharacter-free replacement
ReplGroups == <<36, 49, 124, 36, 50, 124, 36, 51, 124>>                            \* "$1|$2|$3|"
CaseOf(P, s) ==
  IF InputUnspec(P, s) THEN [s |-> s, u |-> TRUE]
  ELSE IF SpanUnspec(P, s) \/ P.nullable
  THEN [s |-> s, m |-> OpIsMatch(P, s).v, def |-> FALSE]
  ELSE LET ms == Matches(P, s) IN
       [s |-> s, m |-> OpIsMatch(P, s).v, def |-> TRUE,
        r0 |-> OpReplace(P, s, ReplSpan), rg |-> OpReplace(P, s, Repl2),
        tok |-> OpTokens(P, s), ana |-> OpAnalyze(P, s),
        capdef |-> ~P.iterambig,
        treedef |-> ~P.iterambig /\ \A j \in 1..Len(ms) : TreeDefinite(P, ms[j])]
BehOfSrc(src) ==                               \* src = <<pat, flags, X>>; <<>> when the spec has no opinion
  LET c == Compile(src[1], src[2], src[3]) IN
  IF c.k = "uns" THEN <<>>
  ELSE IF c.k = "err" THEN
       IF Cardinality(c.e) # 1 THEN <<>>
       ELSE [pat |-> src[1], flags |-> src[2], x |-> src[3], comp |-> CHOOSE e \in c.e : TRUE, cases |-> <<>>]
  ELSE LET P == c.prog IN
       IF LangUnspec(P) THEN <<>>
       ELSE [pat |-> src[1], flags |-> src[2], x |-> src[3], comp |-> "ok", ng |-> P.ng, nullable |-> P.nullable,
             strict |-> P.strict, repl2 |-> Repl2,
             cases |-> [k \in 1..Len(InputSeq) |-> CaseOf(P, InputSeq[k])]]
PrintSrc(src) == LET b == BehOfSrc(src) IN IF b = <<>> THEN TRUE ELSE PrintT(<<"B", ToJson(b)>>)

=============================================================================
