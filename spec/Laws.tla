-------------------------------- MODULE Laws --------------------------------
(* The laws of regular-expression algebra of property C20 as AST -> AST      *)
(* rewrites, each applicable at any node where its side condition holds.      *)
(* Rewrites(a) = every AST obtained from a by ONE application of ONE law at   *)
(* ONE position, as records [ast, law, same] where same says what must be     *)
(* preserved: "all" (every API result; the law preserves ordered choice and   *)
(* does not touch groups), "spans" (is_match and match spans; group numbers   *)
(* change), "m" (is_match only).                                              *)
EXTENDS Render

Ncg(x) == [k |-> "ncg", r |-> x]
Rep(x, mn, mx, lazy) == [k |-> "rep", r |-> x, min |-> mn, max |-> mx, lazy |-> lazy, q |-> "n"]
Star(x, lazy) == [k |-> "rep", r |-> x, min |-> 0, max |-> -1, lazy |-> lazy, q |-> "s"]
Opt(x, lazy) == [k |-> "rep", r |-> x, min |-> 0, max |-> 1, lazy |-> lazy, q |-> "s"]
MkSeq(xs) == IF Len(xs) = 1 THEN xs[1] ELSE [k |-> "seq", xs |-> xs]
IsAtomL(a) == a.k \in {"chr", "dot", "cls", "bol", "eol", "bref", "grp", "ncg"}
Copies(x, n) == [j \in 1..n |-> x]
Pure(x) == ~HasGrp(x)                         \* duplicating or deleting x does not disturb group numbering

(* laws applicable at the root of node a (a is an atom or a rep of an atom - a "piece") *)
RootLaws(a) ==
  (IF IsAtomL(a) /\ a.k # "ncg" THEN {[ast |-> Ncg(a), law |-> "wrap", same |-> "all"]} ELSE {})
  \cup (IF IsAtomL(a) THEN {[ast |-> Rep(a, 1, 1, FALSE), law |-> "r{1}", same |-> "all"]} ELSE {})
  \cup (IF a.k = "rep" /\ a.max # -1 /\ a.max >= a.min /\ a.max <= 3 /\ Pure(a.r) /\ (a.min + a.max > 0)
        THEN {[ast |-> Ncg(MkSeq(Copies(a.r, a.min) \o Copies(Opt(Ncg(a.r), a.lazy), a.max - a.min))),
               law |-> "r{n,m}",
               \* two or more RELUCTANT optional copies do not preserve ordered choice when r has several paths:
               \* r{0,2}? prefers (r1 r)-paths to the one-iteration path r2, (?:r)??(?:r)?? does not
               \* ((?:ab|a){0,2}?b on abab: abab against ab) - there the law is claimed for is_match only
               same |-> IF a.lazy /\ a.max - a.min >= 2 THEN "m" ELSE "all"]} ELSE {})
  \cup (IF a.k = "rep" /\ a.max = -1 /\ a.min <= 3 /\ Pure(a.r) /\ a.q = "n"
        THEN {[ast |-> Ncg(MkSeq(Copies(a.r, a.min) \o <<Star(a.r, a.lazy)>>)), law |-> "r{n,}", same |-> "all"]}
        ELSE {})
  \cup (IF a.k = "rep" /\ a.max = -1 /\ a.min = 1 /\ a.q = "s" /\ Pure(a.r)
        THEN {[ast |-> Ncg(MkSeq(<<a.r, Star(a.r, a.lazy)>>)), law |-> "r+", same |-> "all"]} ELSE {})
  \cup (IF a.k = "rep" /\ a.max = 0 /\ Pure(a.r)
        THEN {[ast |-> Ncg([k |-> "seq", xs |-> <<>>]), law |-> "r{0}", same |-> "all"]} ELSE {})
  \cup (IF a.k = "cls" /\ ~a.neg /\ a.sub = <<>> /\ ~a.bare /\ Len(a.items) >= 2
           /\ \A j \in 1..Len(a.items) : a.items[j].t = "c"
        THEN {[ast |-> Ncg([k |-> "alt", xs |-> [j \in 1..Len(a.items) |-> [k |-> "chr", c |-> a.items[j].c]]]),
               law |-> "[xy]", same |-> "all"]} ELSE {})
  \cup (IF a.k = "chr" THEN {[ast |-> [k |-> "cls", neg |-> FALSE, items |-> <<[t |-> "c", c |-> a.c]>>, sub |-> <<>>,
                                      bare |-> FALSE], law |-> "x=[x]", same |-> "all"]} ELSE {})
  \cup (IF IsAtomL(a) /\ Pure(a) THEN {[ast |-> Ncg([k |-> "alt", xs |-> <<a, a>>]), law |-> "r|r", same |-> "all"]} ELSE {})
  \cup (IF a.k = "grp" THEN {[ast |-> Ncg(a.r), law |-> "uncapture", same |-> "spans"]} ELSE {})

(* (?:r|s)t = rt|st inside a sequence: <<.., (?:r|s), t, ..>>  ->  <<.., (?:rt|st), ..>> *)
DistLaws(a) ==
  IF a.k # "seq" THEN {}
  ELSE {[ast |-> MkSeq(SubSeq(a.xs, 1, j - 1)
                       \o << Ncg([k |-> "alt", xs |-> [b \in 1..Len(a.xs[j].r.xs) |->
                                   LET br == a.xs[j].r.xs[b] IN
                                   [k |-> "seq", xs |-> (IF br.k = "seq" THEN br.xs ELSE <<br>>) \o <<a.xs[j + 1]>>]]]) >>
                       \o SubSeq(a.xs, j + 2, Len(a.xs))),
         law |-> "(r|s)t", same |-> "all"]
        : j \in {i \in 1..(Len(a.xs) - 1) : a.xs[i].k = "ncg" /\ a.xs[i].r.k = "alt" /\ Pure(a.xs[i + 1])}}

RECURSIVE Rewrites(_)
Rewrites(a) ==
  RootLaws(a) \cup DistLaws(a)
  \cup CASE a.k \in {"seq", "alt"} ->
              UNION {{[w EXCEPT !.ast = [a EXCEPT !.xs[x] = w.ast]] : w \in {v \in Rewrites(a.xs[x]) :
                        \* a sequence element must stay a piece, an alternative must stay a branch
                        a.k = "alt" \/ v.ast.k \notin {"seq", "alt"}}} : x \in 1..Len(a.xs)}
         [] a.k \in {"grp", "ncg"} -> {[w EXCEPT !.ast = [a EXCEPT !.r = w.ast]] : w \in Rewrites(a.r)}
         [] a.k = "rep" -> {[w EXCEPT !.ast = [a EXCEPT !.r = w.ast]] : w \in {v \in Rewrites(a.r) : IsAtomL(v.ast)}}
         [] OTHER -> {}
=============================================================================
