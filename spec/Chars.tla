------------------------------- MODULE Chars -------------------------------
(* Characters are Unicode code points (integers); strings are sequences of   *)
(* code points.  This module: scalar values, the XML name-character and      *)
(* white-space sets written out from the XML 1.0 (5th ed.) / XSD 1.1         *)
(* recommendations, simple case counterparts for the one-to-one alphabets of *)
(* property C11, and an interval-set algebra used for class expressions.     *)
EXTENDS Naturals, Integers, Sequences, FiniteSets

LF == 10
CR == 13
TAB == 9
SPACE == 32
MaxCp == 1114111

IsScalar(c) == (0 <= c /\ c <= 55295) \/ (57344 <= c /\ c <= MaxCp)

Ws4 == {9, 10, 13, 32}                    \* \s, and the characters flag x removes

InR(c, lo, hi) == lo <= c /\ c <= hi

(* XML 1.0 fifth edition, production [4] NameStartChar and [4a] NameChar *)
NameStartChar(c) ==
  \/ c = 58 \/ c = 95 \/ InR(c, 65, 90) \/ InR(c, 97, 122)
  \/ InR(c, 192, 214) \/ InR(c, 216, 246) \/ InR(c, 248, 767)
  \/ InR(c, 880, 893) \/ InR(c, 895, 8191) \/ InR(c, 8204, 8205)
  \/ InR(c, 8304, 8591) \/ InR(c, 11264, 12271) \/ InR(c, 12289, 55295)
  \/ InR(c, 63744, 64975) \/ InR(c, 65008, 65533) \/ InR(c, 65536, 983039)
NameChar(c) ==
  \/ NameStartChar(c) \/ c = 45 \/ c = 46 \/ InR(c, 48, 57) \/ c = 183
  \/ InR(c, 768, 879) \/ InR(c, 8255, 8256)

(* ---- simple case counterparts (C11) --------------------------------------- *)
(* The alphabets on which upper/lower case is a one-to-one arithmetic map.     *)
Upper2Lower(c) ==                         \* c upper-case letter of a known alphabet -> its lower case, else c
  IF InR(c, 65, 90) THEN c + 32                                   \* ASCII
  ELSE IF InR(c, 192, 222) /\ c # 215 THEN c + 32                 \* Latin-1 (without multiplication sign)
  ELSE IF InR(c, 913, 937) /\ c # 930 THEN c + 32                 \* Greek
  ELSE IF InR(c, 1040, 1071) THEN c + 32                          \* Cyrillic basic
  ELSE IF InR(c, 1024, 1039) THEN c + 80                          \* Cyrillic extensions
  ELSE IF InR(c, 66560, 66599) THEN c + 40                        \* Deseret
  ELSE c
Lower2Upper(c) ==
  IF InR(c, 97, 122) THEN c - 32
  ELSE IF InR(c, 224, 254) /\ c # 247 THEN c - 32
  ELSE IF InR(c, 945, 969) /\ c # 962 THEN c - 32
  ELSE IF InR(c, 1072, 1103) THEN c - 32
  ELSE IF InR(c, 1104, 1119) THEN c - 80
  ELSE IF InR(c, 66600, 66639) THEN c - 40
  ELSE c
Counterpart(c) == IF Upper2Lower(c) # c THEN Upper2Lower(c) ELSE Lower2Upper(c)
IsKnownLetter(c) == Counterpart(c) # c

(* Characters that have a case relation with a known letter but lie outside the *)
(* one-to-one alphabets (Kelvin sign, long s, final sigma, dotless i ...).     *)
(* Any comparison under flag i that involves one of them is UNSPEC.            *)
Exotic == {181, 304, 305, 383, 837, 962, 976, 977, 981, 982, 1008, 1009, 1012, 1013,
           7296, 7297, 7298, 7299, 7300, 7301, 7302, 7303, 7304, 7838, 8126, 8486, 8490, 8491,
           223, 255, 376, 42570, 42571}
(* The spec has an opinion on the case behaviour of an INPUT character c iff  *)
(* c is a letter of a one-to-one alphabet, or a character that certainly has  *)
(* no case (ASCII and Latin-1 non-letters, the rest of the checked alphabets' *)
(* punctuation is not included).                                              *)
CaseLess(c) == \/ InR(c, 0, 64) \/ InR(c, 91, 96) \/ InR(c, 123, 169) \/ InR(c, 171, 180)
               \/ InR(c, 182, 185) \/ InR(c, 187, 191) \/ c = 215 \/ c = 247
CaseKnown(c) == IsKnownLetter(c) \/ CaseLess(c)

CaseEq(a, b) == a = b \/ Counterpart(a) = b

(* ---- interval sets: sequences of <<lo,hi>>, sorted, disjoint, not adjacent -- *)
IMember(S, c) == \E k \in 1..Len(S) : S[k][1] <= c /\ c <= S[k][2]

RECURSIVE INormFrom(_, _, _)
(* S sorted by lo; merge overlapping / adjacent *)
INormFrom(S, k, acc) ==
  IF k > Len(S) THEN acc
  ELSE IF acc # <<>> /\ S[k][1] <= acc[Len(acc)][2] + 1
       THEN INormFrom(S, k + 1,
              [acc EXCEPT ![Len(acc)] = <<acc[Len(acc)][1],
                                          IF S[k][2] > acc[Len(acc)][2] THEN S[k][2] ELSE acc[Len(acc)][2]>>])
       ELSE INormFrom(S, k + 1, Append(acc, S[k]))

RECURSIVE IMerge(_, _, _, _, _)
(* merge two sorted interval sequences into one sorted by lo *)
IMerge(A, a, B, b, acc) ==
  IF a > Len(A) THEN acc \o SubSeq(B, b, Len(B))
  ELSE IF b > Len(B) THEN acc \o SubSeq(A, a, Len(A))
  ELSE IF A[a][1] <= B[b][1] THEN IMerge(A, a + 1, B, b, Append(acc, A[a]))
  ELSE IMerge(A, a, B, b + 1, Append(acc, B[b]))

IUnion(A, B) == INormFrom(IMerge(A, 1, B, 1, <<>>), 1, <<>>)

RECURSIVE IComplFrom(_, _, _, _)
(* complement within lo0..MaxCp (surrogates removed afterwards) *)
IComplFrom(S, k, nextLo, acc) ==
  IF k > Len(S) THEN IF nextLo <= MaxCp THEN Append(acc, <<nextLo, MaxCp>>) ELSE acc
  ELSE IComplFrom(S, k + 1, S[k][2] + 1,
                  IF S[k][1] > nextLo THEN Append(acc, <<nextLo, S[k][1] - 1>>) ELSE acc)
IComplAll(S) == IComplFrom(S, 1, 0, <<>>)
Surrogates == << <<55296, 57343>> >>
IInter(A, B) == IComplAll(IUnion(IComplAll(A), IComplAll(B)))
IDiff(A, B) == IInter(A, IComplAll(B))
ICompl(S) == IDiff(IComplAll(S), Surrogates)          \* complement within the scalar values
AllScalars == << <<0, 55295>>, <<57344, MaxCp>> >>
=============================================================================
