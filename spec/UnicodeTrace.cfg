INIT UInit
NEXT UNext
CHECK_DEADLOCK FALSE
POSTCONDITION UAccepted
