------------------------------- MODULE Search -------------------------------
(* The search loop of the engine at code grain (ReMatcher::matches) together   *)
(* with the compile-time facts it relies on (ReProgram::new, add_precondition), *)
(* computed from the operator tree of Engine.tla.  "match_at(j)" is abstracted  *)
(* to the semantics (a match exists at j); what is modelled is WHICH start      *)
(* positions the loop tries and which inputs it rejects up front.               *)
(* Theorem T18 (checked by TLC on every enumerated pattern x input x start):    *)
(*     SearchStart(prog, s, i) = LeftmostStart(ast, s, i)                       *)
(* i.e. every shortcut - literal-prefix scan, first-character filter, minimum-  *)
(* length cut-off, positional preconditions, start-anchor fast path - is a pure *)
(* optimisation of "try every position from i".  This is the design-level half *)
(* of C08 (FactsTrace.tla checks the facts the CODE derives; the differential   *)
(* checks the code's behaviour).                                               *)
EXTENDS Engine

RECURSIVE MinLen(_)
MinLen(o) ==                                    \* get_minimum_match_length
  CASE o.k = "atom" -> Len(o.cs)
    [] o.k = "class" -> 1
    [] o.k = "capture" -> MinLen(o.r)
    [] o.k = "sequence" -> FoldLeft(LAMBDA a, x : a + MinLen(x), 0, o.xs)
    [] o.k = "choice" -> LET ls == {MinLen(o.xs[j]) : j \in 1..Len(o.xs)} IN CHOOSE m \in ls : \A n \in ls : m <= n
    [] o.k \in {"repeat", "greedyfixed", "reluctantfixed", "unambiguous", "rep?"} -> o.min * MinLen(o.r)
    [] OTHER -> 0

IsRep(o) == o.k \in {"repeat", "greedyfixed", "reluctantfixed", "unambiguous", "rep?"}
(* preconditions: sequence of [op, fixed (-1 = none), min] *)
RECURSIVE Pre(_, _, _, _), PreSeq(_, _, _, _, _, _)
Pre(o, fp, mp, M) ==                            \* add_precondition(op, fixed_position, min_position); M = multi-line
  CASE o.k \in {"atom", "class"} -> << [op |-> o, fixed |-> fp, min |-> mp] >>
    [] IsRep(o) /\ o.min >= 1 ->
         IF o.r.k \in {"atom", "class"}
         THEN << [op |-> (IF o.min = 1 THEN o ELSE [k |-> "repeat", min |-> o.min, max |-> o.min, greedy |-> TRUE, r |-> o.r]),
                  fixed |-> fp, min |-> mp] >>
         ELSE Pre(o.r, fp, mp, M)
    [] o.k = "capture" -> Pre(o.r, fp, mp, M)
    [] o.k = "sequence" -> PreSeq(o.xs, 1, fp, mp, M, <<>>)
    [] OTHER -> <<>>
PreSeq(xs, j, fp, mp, M, acc) ==
  IF j > Len(xs) THEN acc
  ELSE LET o == xs[j]
           fp1 == IF o.k = "bol" /\ ~M THEN 0 ELSE fp
           ml == MLen(o)
           fp2 == IF fp1 # -1 /\ ml # -1 THEN fp1 + ml ELSE -1
       IN PreSeq(xs, j + 1, fp2, mp + MinLen(o), M, acc \o Pre(o, fp1, mp, M))

FactsOf(prog, o) ==                             \* ReProgram::new
  LET first == IF o.k = "sequence" THEN o.xs[1] ELSE [k |-> "none"] IN
  [minlen |-> MinLen(o),
   hasbol |-> first.k = "bol",
   prefix |-> IF first.k = "atom" THEN <<first.cs>> ELSE <<>>,         \* <<>> = none
   initial |-> IF first.k = "class" THEN <<first.node>> ELSE <<>>,
   pre |-> IF o.k = "sequence" THEN Pre(o, -1, 0, prog.F.m) ELSE <<>>]

(* does the (atom / class / repeat of those) operation match at 1-based position j? *)
RECURSIVE PreOpAt(_, _, _, _)
PreOpAt(op, s, j, F) ==
  CASE op.k = "atom" -> j + Len(op.cs) - 1 <= Len(s) /\ \A q \in 1..Len(op.cs) : EqC(s[j + q - 1], op.cs[q], F)
    [] op.k = "class" -> j <= Len(s) /\ (IF op.node.k = "dot" THEN DotOk(s[j], F) ELSE InClass(op.node, s[j], F))
    [] IsRep(op) -> LET unit == IF op.r.k = "atom" THEN Len(op.r.cs) ELSE 1 IN
                    \A q \in 1..op.min : PreOpAt(op.r, s, j + (q - 1) * unit, F)
    [] OTHER -> TRUE
CheckPre(fa, s, start, F) ==                    \* check_preconditions(start); start 1-based
  \A q \in 1..Len(fa.pre) :
    LET pc == fa.pre[q] IN
    IF pc.fixed # -1 THEN pc.fixed + 1 <= Len(s) + 1 /\ PreOpAt(pc.op, s, pc.fixed + 1, F)
    ELSE \E j \in 1..Len(s) : j >= start /\ j >= pc.min + 1 /\ PreOpAt(pc.op, s, j, F)

FirstIn(a, b, ok(_)) == LET S == {j \in a..b : ok(j)} IN IF S = {} THEN 0 ELSE CHOOSE m \in S : \A x \in S : m <= x

(* the start position the search loop reports for a search from i (1-based), 0 = no match *)
SearchStart(prog, fa, s, i) ==
  LET F == prog.F
      at(j) == IsMatchAt(prog.ast, prog.ng, s, j, F)
      n == Len(s)
  IN
  IF fa.hasbol THEN
       IF ~F.m THEN (IF i = 1 /\ CheckPre(fa, s, i, F) /\ at(i) THEN i ELSE 0)
       ELSE IF at(i) THEN i
       ELSE \* seek to the following line starts: positions j > i with s[j-1] = LF and j <= n
            FirstIn(i + 1, n, LAMBDA j : s[j - 1] = 10 /\ at(j))
  ELSE IF n - (i - 1) < fa.minlen THEN 0
  ELSE IF fa.prefix # <<>> THEN
       LET pf == fa.prefix[1] IN
       FirstIn(i, n + 1 - Len(pf),
               LAMBDA j : (\A q \in 1..Len(pf) : EqC(s[j + q - 1], pf[q], F)) /\ at(j))
  ELSE IF fa.initial # <<>> THEN
       LET nd == fa.initial[1] IN
       FirstIn(i, n, LAMBDA j : (IF nd.k = "dot" THEN DotOk(s[j], F) ELSE InClass(nd, s[j], F)) /\ at(j))
  ELSE IF ~CheckPre(fa, s, i, F) THEN 0
  ELSE FirstIn(i, n + 1, LAMBDA j : at(j))
=============================================================================
