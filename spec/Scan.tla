-------------------------------- MODULE Scan --------------------------------
(* The three scan loops of the engine at code grain - ReMatcher::replace (with   *)
(* its first_match / simple_replacement latch and the digit loop of the          *)
(* more-than-9-groups rule), TokenIter::next (prev_end) and AnalyzeIter::next     *)
(* (prev_end / next_substring / skip) - with `matches(pos)` abstracted to the    *)
(* specification's FirstM.  Theorem T20 (checked by TLC on every enumerated      *)
(* pattern x input, and on every replacement string of MCRepl): each loop        *)
(* computes exactly what the declarative Api functions (OpReplace, OpTokens,     *)
(* OpAnalyze) specify - the loops REFINE the specification, by design.           *)
(* Positions here are 0-based like the code's.                                   *)
EXTENDS ApiOps

M0(prog, s, pos) ==                             \* matches(pos): <<>> or [st, en, caps] (0-based st/en, exclusive en)
  LET m == FirstM(prog, s, pos + 1) IN IF m = <<>> THEN <<>> ELSE [st |-> m.st - 1, en |-> m.en - 1, caps |-> m.caps]
Paren(prog, s, m, n) ==                         \* get_paren(n): <<TRUE, text>> or <<FALSE>>
  IF n = 0 THEN <<TRUE, SubSeq(s, m.st + 1, m.en)>>
  ELSE IF n > prog.ng \/ m.caps[n] = Unset THEN <<FALSE>> ELSE <<TRUE, SubSeq(s, m.caps[n][1], m.caps[n][2] - 1)>>

(* one pass over the replacement string for one match: [ok, out, simple] *)
RECURSIVE ReplPass(_, _, _, _, _, _, _)
ReplPass(prog, s, m, repl, i, out, simple) ==   \* i 0-based index into repl
  LET L == Len(repl)  maxcap == prog.ng IN
  IF i >= L THEN [ok |-> TRUE, out |-> out, simple |-> simple]
  ELSE LET ch == repl[i + 1] IN
    IF ch = 92 THEN
         IF i + 1 >= L THEN [ok |-> FALSE]
         ELSE IF repl[i + 2] \in {92, 36} THEN ReplPass(prog, s, m, repl, i + 2, Append(out, repl[i + 2]), FALSE)
         ELSE [ok |-> FALSE]
    ELSE IF ch = 36 THEN
         IF i + 1 >= L THEN [ok |-> FALSE]
         ELSE IF ~IsDig(repl[i + 2]) THEN [ok |-> FALSE]
         ELSE LET n0 == repl[i + 2] - 48 IN
              IF maxcap <= 9
              THEN LET g == Paren(prog, s, m, n0) IN
                   ReplPass(prog, s, m, repl, i + 2, IF maxcap >= n0 /\ g[1] THEN out \o g[2] ELSE out, FALSE)
              ELSE LET d == ReplDigits(repl, i + 3, n0, maxcap)          \* the digit loop: d = <<n, next 1-based index>>
                       g == Paren(prog, s, m, d[1]) IN
                   ReplPass(prog, s, m, repl, d[2] - 1, IF g[1] THEN out \o g[2] ELSE out, FALSE)
    ELSE ReplPass(prog, s, m, repl, i + 1, Append(out, ch), simple)

RECURSIVE ReplLoop(_, _, _, _, _, _, _)
ReplLoop(prog, s, repl, pos, first, simple, result) ==
  LET m == IF pos < Len(s) THEN M0(prog, s, pos) ELSE <<>> IN
  IF m = <<>> THEN
       IF first THEN [k |-> "ok", v |-> s] ELSE [k |-> "ok", v |-> result \o SubSeq(s, pos + 1, Len(s))]
  ELSE LET res1 == result \o SubSeq(s, pos + 1, m.st)
           simple1 == IF first THEN prog.lit ELSE simple
           newpos == IF m.en = pos THEN m.en + 1 ELSE m.en IN
       IF simple1 THEN ReplLoop(prog, s, repl, newpos, FALSE, TRUE, res1 \o repl)
       ELSE LET p == ReplPass(prog, s, m, repl, 0, <<>>, TRUE) IN
            IF ~p.ok THEN [k |-> "err", e |-> "InvalidReplacementString"]
            ELSE ReplLoop(prog, s, repl, newpos, FALSE, p.simple, res1 \o p.out)
ScanReplace(prog, s, repl) ==
  IF prog.nullable THEN [k |-> "err", e |-> "MatchesEmptyString"] ELSE ReplLoop(prog, s, repl, 0, TRUE, FALSE, <<>>)

RECURSIVE TokLoop(_, _, _, _, _)
TokLoop(prog, s, prevEnd, fuel, acc) ==         \* prevEnd = -1 for None
  IF prevEnd = -1 \/ fuel = 0 THEN acc
  ELSE LET m == M0(prog, s, prevEnd) IN
       IF m # <<>> THEN TokLoop(prog, s, m.en, fuel - 1, Append(acc, SubSeq(s, prevEnd + 1, m.st)))
       ELSE Append(acc, SubSeq(s, prevEnd + 1, Len(s)))
ScanTokens(prog, s) ==
  IF s = <<>> THEN [k |-> "ok", v |-> <<>>]
  ELSE IF prog.nullable THEN [k |-> "err", e |-> "MatchesEmptyString"]
  ELSE [k |-> "ok", v |-> TokLoop(prog, s, 0, Len(s) + 2, <<>>)]

(* analyze: flat entries <<is_match, text>>; state = [prevEnd (-1 None), next (<<>> or <<text>>), skip] *)
RECURSIVE AnaLoop(_, _, _, _, _, _, _)
AnaLoop(prog, s, prevEnd, nxt, skip, fuel, acc) ==
  IF prevEnd = -1 \/ fuel = 0 THEN acc
  ELSE IF nxt # <<>> THEN                       \* a non-match was returned last time: now the match that follows it
       AnaLoop(prog, s, nxt[2], <<>>, skip, fuel - 1, Append(acc, <<TRUE, nxt[1]>>))
  ELSE LET start0 == IF skip THEN prevEnd + 1 ELSE prevEnd IN
       IF skip /\ start0 >= Len(s) /\ prevEnd >= Len(s) THEN acc
       ELSE LET m == M0(prog, s, start0) IN
            IF m # <<>> THEN
                 IF prevEnd = m.st THEN AnaLoop(prog, s, m.en, <<>>, m.st = m.en, fuel - 1,
                                                Append(acc, <<TRUE, SubSeq(s, m.st + 1, m.en)>>))
                 ELSE AnaLoop(prog, s, prevEnd, <<SubSeq(s, m.st + 1, m.en), m.en>>, m.st = m.en, fuel - 1,
                              Append(acc, <<FALSE, SubSeq(s, prevEnd + 1, m.st)>>))
            ELSE IF prevEnd < Len(s) THEN Append(acc, <<FALSE, SubSeq(s, prevEnd + 1, Len(s))>>)
            ELSE acc
ScanAnalyze(prog, s) ==
  IF prog.nullable THEN [k |-> "err", e |-> "MatchesEmptyString"]
  ELSE [k |-> "ok", v |-> AnaLoop(prog, s, 0, <<>>, FALSE, 2 * Len(s) + 3, <<>>)]

RECURSIVE FlatText(_)
FlatText(t) == FoldLeft(LAMBDA acc, nd : acc \o (IF "s" \in DOMAIN nd THEN nd.s ELSE FlatText(nd.v)), <<>>, t)
FlatOf(entries) == [k \in 1..Len(entries) |-> IF "n" \in DOMAIN entries[k] THEN <<FALSE, entries[k].n>>
                                              ELSE <<TRUE, FlatText(entries[k].m)>>]
(* T20: the loops refine the specification *)
ScanRefines(prog, s, repl) ==
  /\ LET a == OpReplace(prog, s, repl)  b == ScanReplace(prog, s, repl) IN
     IF a.k = "either" THEN b = [k |-> "ok", v |-> s] ELSE a = b
  /\ OpTokens(prog, s) = ScanTokens(prog, s)
  /\ LET a == OpAnalyze(prog, s)  b == ScanAnalyze(prog, s) IN
     IF a.k = "err" THEN a = b ELSE b.k = "ok" /\ FlatOf(a.v) = b.v
=============================================================================
