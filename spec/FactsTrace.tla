------------------------------ MODULE FactsTrace ------------------------------
(* C08, model side: the compile-time facts the real compiler derives for a       *)
(* pattern (logged through the verif_facts hook) are validated against the       *)
(* semantics.  Each shortcut of the search loop is sound iff its fact satisfies   *)
(* an OBLIGATION with respect to Semantics, for every input:                      *)
(*   prefix P      every match starts with P (case-blind under flag i)           *)
(*   initial I     every match starts with a character of I (so it is not empty)  *)
(*   minlen k      every match has length >= k                                    *)
(*   hasbol        every match starts where ^ holds                               *)
(*   precondition (op, fixed, min)   if a match starts at i then op matches at    *)
(*                 position `fixed`, resp. at some position >= max(i, min)        *)
(* The obligations are checked on every input up to MaxLen over the pattern's own *)
(* alphabet plus one foreign letter and LF.  One TLC state per facts event.       *)
EXTENDS ApiOps, Search, TLC

Rec == ndJsonDeserialize(IOEnv.TRACE)
MaxLenF == 3
VARIABLE l
Ev == Rec[l]
Report(kind, what) == PrintT("MISMATCH " \o ToString(l) \o " " \o kind \o " " \o ToJson(<<what>>))

(* the engine's operator trees that occur in preconditions: atom / class / repeats of those *)
RECURSIVE OpLen(_, _, _, _), OpAt(_, _, _, _)
OpAt(op, s, j, F) ==                            \* does op match at 1-based position j (at least its minimum)?
  CASE op.k = "atom" -> j + Len(op.cs) - 1 <= Len(s) /\ \A q \in 1..Len(op.cs) : EqC(s[j + q - 1], op.cs[q], F)
    [] op.k = "class" -> j <= Len(s) /\ IMember(op.set, s[j])
    [] op.k \in {"repeat", "greedyfixed", "reluctantfixed", "unambiguous"} -> OpLen(op, s, j, F) >= 0
    [] OTHER -> TRUE                            \* anything else is not used as a precondition: no claim
OpLen(op, s, j, F) ==                           \* length of op.min consecutive matches of its child at j, or -1
  LET unit == IF op.r.k = "atom" THEN Len(op.r.cs) ELSE 1
      ok(q) == OpAt(op.r, s, j + (q - 1) * unit, F)
  IN IF op.r.k \notin {"atom", "class"} THEN 0
     ELSE IF \A q \in 1..op.min : ok(q) THEN op.min * unit ELSE -1

PatAlphabet(ast) == LET cs == {pr[1] : pr \in PatChars(ast)} IN
  (IF Cardinality(cs) <= 3 THEN cs ELSE {CHOOSE c \in cs : TRUE}) \cup {120, 10}
InputsF(A) == UNION {[1..n -> A] : n \in 0..MaxLenF}

Obligations(P, fa, s) ==
  \A i \in 1..Len(s) + 1 :
    IsMatchAt(P.ast, P.ng, s, i, P.F) =>
      /\ (fa.prefix.some =>
            \/ (i + Len(fa.prefix.v) - 1 <= Len(s) /\ \A q \in 1..Len(fa.prefix.v) : EqC(s[i + q - 1], fa.prefix.v[q], P.F))
            \/ Report("facts", [fact |-> "prefix", input |-> s, start |-> i - 1]))
      /\ (fa.initial.some =>
            \/ (i <= Len(s) /\ IMember(fa.initial.v, s[i]))
            \/ Report("facts", [fact |-> "initial class", input |-> s, start |-> i - 1]))
      /\ ((\A e \in EndsAt(P.ast, P.ng, s, i, P.F) : e - i >= fa.minlen)
            \/ Report("facts", [fact |-> "minimum length", claimed |-> fa.minlen, input |-> s, start |-> i - 1]))
      /\ (fa.hasbol => (Bol(s, i, P.F) \/ Report("facts", [fact |-> "hasbol", input |-> s, start |-> i - 1])))
      /\ \A q \in 1..Len(fa.pre) :
           LET pc == fa.pre[q] IN
           \/ IF pc.fixed >= 0 THEN OpAt(pc.op, s, pc.fixed + 1, P.F)
              ELSE \E j \in 1..Len(s) : j >= i /\ j >= pc.min + 1 /\ OpAt(pc.op, s, j, P.F)
           \/ Report("facts", [fact |-> "precondition", nr |-> q, fixed |-> pc.fixed, min |-> pc.min, input |-> s, start |-> i - 1])

FInit == l = 1 /\ TLCSet(10, 1) /\ TLCSet(1, 0) /\ TLCSet(2, 0)
FNext ==
  /\ l <= Len(Rec) /\ l' = l + 1 /\ TLCSet(10, l + 1)
  /\ LET c == Compile(Ev.pat, Ev.flags, Ev.xpath) IN
     IF c.k # "ok" \/ c.prog.lit THEN TLCSet(2, TLCGet(2) + 1)
     ELSE IF LangUnspec(c.prog) \/ (c.prog.F.i /\ (\E pr \in PatChars(c.prog.ast) : \E e \in Exotic : InR(e, pr[1], pr[2])))
     THEN TLCSet(2, TLCGet(2) + 1)
     ELSE /\ TLCSet(1, TLCGet(1) + 1)
          (* translation validation of the compiler: the operator tree the code built is the one the model lowers to *)
          /\ LET pat == IF ParseFlags(Ev.flags, Ev.xpath).x THEN Strip(Ev.pat) ELSE Ev.pat
                 model == Program(c.prog, pat) IN
             /\ (TreeOk(model, Ev.facts.ops) \/ Report("lowering", [model |-> model, code |-> Ev.facts.ops]))
             (* ... and the facts the code derived from it are the ones the model derives (ReProgram::new) *)
             /\ LET mf == FactsOf(c.prog, model)  cf == Ev.facts
                    sameKind(a, b) == IF a.k \in {"atom", "class"} THEN b.k = a.k
                                      ELSE b.k \in {"repeat", "greedyfixed", "reluctantfixed", "unambiguous"} /\ b.min = a.min
                    ok == /\ cf.minlen = mf.minlen /\ cf.hasbol = mf.hasbol
                          /\ cf.prefix.some = (mf.prefix # <<>>) /\ (mf.prefix # <<>> => cf.prefix.v = mf.prefix[1])
                          /\ cf.initial.some = (mf.initial # <<>>)
                          /\ Len(cf.pre) = Len(mf.pre)
                          /\ \A q \in 1..Len(mf.pre) : cf.pre[q].fixed = mf.pre[q].fixed /\ cf.pre[q].min = mf.pre[q].min
                                                       /\ sameKind(mf.pre[q].op, cf.pre[q].op)
                IN ok \/ Report("lowering", [what |-> "facts differ from the model", minlen |-> mf.minlen, hasbol |-> mf.hasbol,
                                              prefix |-> mf.prefix, npre |-> Len(mf.pre)])
          /\ \A s \in InputsF(PatAlphabet(c.prog.ast)) : (CaseUnspec(c.prog, s) \/ GcUnspec(c.prog, s)) \/ Obligations(c.prog, Ev.facts, s)
FAccepted == /\ PrintT("TRACE-STATS " \o ToJson([lines |-> Len(Rec), consumed |-> TLCGet(10) - 1, compared |-> TLCGet(1),
                                                 unspec |-> TLCGet(2)]))
             /\ TLCGet(10) = Len(Rec) + 1
=============================================================================
