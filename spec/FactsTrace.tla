------------------------------ MODULE FactsTrace ------------------------------
(* C08, model side: the compile-time facts the real compiler derives for a       *)
(* pattern (logged through the verif_facts hook) are validated against the       *)
(* semantics.  Each shortcut of the search loop is sound iff its fact satisfies   *)
(* an OBLIGATION with respect to Semantics, for every input:                      *)
(*   prefix P      every match starts with P (case-blind under flag i)           *)
(*   initial I     every match starts with a character of I (so it is not empty)  *)
(*   minlen k      every match has length >= k                                    *)
(*   hasbol        every match starts where ^ holds                               *)
(*   precondition (op, fixed, min)   if a match starts at i then op matches at    *)
(*                 position `fixed`, resp. at some position >= max(i, min)        *)
(* The obligations are checked on every input up to MaxLen over the pattern's own *)
(* alphabet plus one foreign letter and LF.  One TLC state per facts event.       *)
EXTENDS ApiOps, OpSem, TLC

Rec == ndJsonDeserialize(IOEnv.TRACE)
MaxLenF == 3
VARIABLE l
Ev == Rec[l]
Report(kind, what) == PrintT("MISMATCH " \o ToString(l) \o " " \o kind \o " " \o ToJson(<<what>>))

(* the engine's operator trees that occur in preconditions: atom / class / repeats of those *)
RECURSIVE OpLen(_, _, _, _), OpAt(_, _, _, _)
OpAt(op, s, j, F) ==                            \* does op match at 1-based position j (at least its minimum)?
  CASE op.k = "atom" -> j + Len(op.cs) - 1 <= Len(s) /\ \A q \in 1..Len(op.cs) : EqC(s[j + q - 1], op.cs[q], F)
    [] op.k = "class" -> j <= Len(s) /\ IMember(op.set, s[j])
    [] op.k \in {"repeat", "greedyfixed", "reluctantfixed", "unambiguous"} -> OpLen(op, s, j, F) >= 0
    [] OTHER -> TRUE                            \* anything else is not used as a precondition: no claim
OpLen(op, s, j, F) ==                           \* length of op.min consecutive matches of its child at j, or -1
  LET unit == IF op.r.k = "atom" THEN Len(op.r.cs) ELSE 1
      ok(q) == OpAt(op.r, s, j + (q - 1) * unit, F)
  IN IF op.r.k \notin {"atom", "class"} THEN 0
     ELSE IF \A q \in 1..op.min : ok(q) THEN op.min * unit ELSE -1

PatAlphabet(ast, F) == LET cs == {pr[1] : pr \in PatChars(ast)}
                           base == IF Cardinality(cs) <= 3 THEN cs ELSE {CHOOSE c \in cs : TRUE} IN
  base \cup {120, 10} \cup (IF F.i THEN {Counterpart(c) : c \in IF Cardinality(base) <= 2 THEN base ELSE {CHOOSE c \in base : TRUE}} ELSE {})
InputsF(A, n) == UNION {[1..m -> A] : m \in 0..n}

(* translation validation: what the tree the CODE built computes (OpSem), against the reference semantics *)
SemOk(P, o, s) ==
  \A i \in 1..Len(s) + 1 :
    LET a == OpFirstAt(o, P.ng, s, i, P.F)
        b == FirstAt(P.ast, P.ng, s, i, P.F)
        ok == IF P.strict /\ ~P.iterambig THEN a = b
              ELSE IF P.strict THEN (a = <<>>) = (b = <<>>) /\ (a # <<>> => a[1] = b[1])
              ELSE (a # <<>>) = IsMatchAt(P.ast, P.ng, s, i, P.F)
    IN ok \/ Report("lowering", [what |-> "the operator tree computes another match than the pattern", input |-> s, start |-> i - 1,
                                   tree |-> (IF a = <<>> THEN <<>> ELSE <<a[1] - 1>>), pattern |-> (IF b = <<>> THEN <<>> ELSE <<b[1] - 1>>)])

Obligations(P, fa, s) ==
  \A i \in 1..Len(s) + 1 :
    IsMatchAt(P.ast, P.ng, s, i, P.F) =>
      /\ (fa.prefix.some =>
            \/ (i + Len(fa.prefix.v) - 1 <= Len(s) /\ \A q \in 1..Len(fa.prefix.v) : EqC(s[i + q - 1], fa.prefix.v[q], P.F))
            \/ Report("facts", [fact |-> "prefix", input |-> s, start |-> i - 1]))
      /\ (fa.initial.some =>
            \/ (i <= Len(s) /\ IMember(fa.initial.v, s[i]))
            \/ Report("facts", [fact |-> "initial class", input |-> s, start |-> i - 1]))
      /\ ((\A e \in EndsAt(P.ast, P.ng, s, i, P.F) : e - i >= fa.minlen)
            \/ Report("facts", [fact |-> "minimum length", claimed |-> fa.minlen, input |-> s, start |-> i - 1]))
      /\ (fa.hasbol => (Bol(s, i, P.F) \/ Report("facts", [fact |-> "hasbol", input |-> s, start |-> i - 1])))
      /\ \A q \in 1..Len(fa.pre) :
           LET pc == fa.pre[q] IN
           \/ IF pc.fixed >= 0 THEN OpAt(pc.op, s, pc.fixed + 1, P.F)
              ELSE \E j \in 1..Len(s) : j >= i /\ j >= pc.min + 1 /\ OpAt(pc.op, s, j, P.F)
           \/ Report("facts", [fact |-> "precondition", nr |-> q, fixed |-> pc.fixed, min |-> pc.min, input |-> s, start |-> i - 1])

FInit == l = 1 /\ TLCSet(10, 1) /\ TLCSet(1, 0) /\ TLCSet(2, 0) /\ TLCSet(3, 0)
FNext ==
  /\ l <= Len(Rec) /\ l' = l + 1 /\ TLCSet(10, l + 1)
  /\ LET c == Compile(Ev.pat, Ev.flags, Ev.xpath) IN
     IF c.k # "ok" \/ c.prog.lit THEN TLCSet(2, TLCGet(2) + 1)
     ELSE IF LangUnspec(c.prog) \/ (c.prog.F.i /\ (\E pr \in PatChars(c.prog.ast) : \E e \in Exotic : InR(e, pr[1], pr[2])))
     THEN TLCSet(2, TLCGet(2) + 1)
     ELSE /\ TLCSet(1, TLCGet(1) + 1)
          (* The operator tree and the facts are compared with the model's (Engine!Program, Search!FactsOf).  A     *)
          (* difference is not a violation by itself - another lowering may be just as right - it makes the       *)
          (* semantic checks below go deeper; those report witnesses (an input on which the tree or a fact is     *)
          (* wrong), which the orchestrator then confirms against the running code.                               *)
          /\ LET pat == IF ParseFlags(Ev.flags, Ev.xpath).x THEN Strip(Ev.pat) ELSE Ev.pat
                 model == Program(c.prog, pat)
                 mf == FactsOf(c.prog, model)  cf == Ev.facts
                 sameKind(a, b) == IF a.k \in {"atom", "class"} THEN b.k = a.k
                                   ELSE b.k \in {"repeat", "greedyfixed", "reluctantfixed", "unambiguous"} /\ b.min = a.min
                 factsOk == /\ cf.minlen = mf.minlen /\ cf.hasbol = mf.hasbol
                            /\ cf.prefix.some = (mf.prefix # <<>>) /\ (mf.prefix # <<>> => cf.prefix.v = mf.prefix[1])
                            /\ cf.initial.some = (mf.initial # <<>>)
                            /\ Len(cf.pre) = Len(mf.pre)
                            /\ \A q \in 1..Len(mf.pre) : cf.pre[q].fixed = mf.pre[q].fixed /\ cf.pre[q].min = mf.pre[q].min
                                                          /\ sameKind(mf.pre[q].op, cf.pre[q].op)
                 same == TreeOk(model, cf.ops) /\ factsOk
                 n == IF same THEN MaxLenF ELSE MaxLenF + 2
             IN /\ (same \/ (TLCSet(3, TLCGet(3) + 1) /\ PrintT("NOTE " \o ToString(l) \o " tree or facts differ from the model's: checked to length " \o ToString(n))))
                /\ \A s \in InputsF(PatAlphabet(c.prog.ast, c.prog.F), n) :
                      (CaseUnspec(c.prog, s) \/ GcUnspec(c.prog, s)) \/ (Obligations(c.prog, cf, s) /\ SemOk(c.prog, cf.ops, s))
FAccepted == /\ PrintT("TRACE-STATS " \o ToJson([lines |-> Len(Rec), consumed |-> TLCGet(10) - 1, compared |-> TLCGet(1),
                                                 unspec |-> TLCGet(2), differ |-> TLCGet(3)]))
             /\ TLCGet(10) = Len(Rec) + 1
=============================================================================
