---------------------------- MODULE UnicodeData ----------------------------
(* General_Category (Unicode 14.0, from CPython's unicodedata) and the block *)
(* list shipped with the repository, loaded as constant data.                *)
EXTENDS Chars, Json, IOUtils, TLC

DataDir == IF "VERIF_DATA" \in DOMAIN IOEnv THEN IOEnv.VERIF_DATA ELSE "data"
GcTable == JsonDeserialize(DataDir \o "/gc14.json").segs      \* <<lo, hi, "Lu">> ... sorted, covering 0..10FFFF
BlockTable == JsonDeserialize(DataDir \o "/blocks.json").blocks \* [name |-> <<cps>>, lo, hi]

RECURSIVE GcSearch(_, _, _)
GcSearch(c, lo, hi) ==                      \* binary search for the segment containing c
  LET mid == (lo + hi) \div 2 IN
  IF c < GcTable[mid][1] THEN GcSearch(c, lo, mid - 1)
  ELSE IF c > GcTable[mid][2] THEN GcSearch(c, mid + 1, hi)
  ELSE GcTable[mid][3]
Gc(c) == GcSearch(c, 1, Len(GcTable))
RECURSIVE GcIdx(_, _, _)
GcIdx(c, lo, hi) ==
  LET mid == (lo + hi) \div 2 IN
  IF c < GcTable[mid][1] THEN GcIdx(c, lo, mid - 1)
  ELSE IF c > GcTable[mid][2] THEN GcIdx(c, mid + 1, hi)
  ELSE mid
GcSearchIdx(c) == GcIdx(c, 1, Len(GcTable))
GcKnown(c) == Gc(c) # "Cn"                  \* assigned in 14.0 (later versions only ever assign Cn code points)

Cat2 == {"Lu","Ll","Lt","Lm","Lo","Mn","Mc","Me","Nd","Nl","No","Pc","Pd","Ps","Pe","Pi","Pf","Po",
         "Zs","Zl","Zp","Sm","Sc","Sk","So","Cc","Cf","Co","Cn"}       \* Cs deliberately absent
Cat1 == {"L","M","N","P","Z","S","C"}
CatNames == Cat1 \cup Cat2
CatStr(name) ==                              \* name: sequence of code points -> TLA+ string, "" if not a category
  LET L == Len(name)
      ch(c) == CASE c = 76 -> "L" [] c = 77 -> "M" [] c = 78 -> "N" [] c = 80 -> "P" [] c = 90 -> "Z"
                 [] c = 83 -> "S" [] c = 67 -> "C" [] c = 117 -> "u" [] c = 108 -> "l" [] c = 116 -> "t"
                 [] c = 109 -> "m" [] c = 111 -> "o" [] c = 110 -> "n" [] c = 99 -> "c" [] c = 101 -> "e"
                 [] c = 100 -> "d" [] c = 115 -> "s" [] c = 105 -> "i" [] c = 102 -> "f" [] c = 112 -> "p"
                 [] c = 107 -> "k" [] OTHER -> "?"
      s == IF L = 1 THEN ch(name[1]) ELSE IF L = 2 THEN ch(name[1]) \o ch(name[2]) ELSE ""
  IN IF s \in CatNames THEN s ELSE ""
FirstLetter(cat) == CASE cat \in {"Lu","Ll","Lt","Lm","Lo"} -> "L" [] cat \in {"Mn","Mc","Me"} -> "M"
                      [] cat \in {"Nd","Nl","No"} -> "N" [] cat \in {"Pc","Pd","Ps","Pe","Pi","Pf","Po"} -> "P"
                      [] cat \in {"Zs","Zl","Zp"} -> "Z" [] cat \in {"Sm","Sc","Sk","So"} -> "S"
                      [] OTHER -> "C"
InCat(c, name) == LET g == Gc(c) IN IF name \in Cat1 THEN FirstLetter(g) = name ELSE g = name
IsDigitChar(c) == Gc(c) = "Nd"                                \* \d
IsWordChar(c) == FirstLetter(Gc(c)) \notin {"P", "Z", "C"}    \* \w

BlockIdx(name) == {k \in 1..Len(BlockTable) : BlockTable[k].name = name}
PrivateUseName == <<80,114,105,118,97,116,101,85,115,101>>     \* "PrivateUse": three ranges (XSD 1.1 G.4.2.3)
BlockKnown(name) == name = PrivateUseName \/ BlockIdx(name) # {}
InBlock(c, name) ==
  IF name = PrivateUseName THEN InR(c, 57344, 63743) \/ InR(c, 983040, 1048573) \/ InR(c, 1048576, 1114109)
  ELSE \E k \in BlockIdx(name) : InR(c, BlockTable[k].lo, BlockTable[k].hi)
=============================================================================
