------------------------------- MODULE MCGen -------------------------------
(* Model-checking configurations over the pattern builder: every finished    *)
(* (pattern, flags) state is (1) checked against the theorems of DESIGN 3.3  *)
(* on every input up to the bound and (2) printed as one JSON behaviour with *)
(* the spec's expected result of every API call, to be replayed into the     *)
(* real code.                                                                *)
EXTENDS Gen, Beh, Laws, OpSem, Scan

CONSTANTS EmitMode, Variants

(* ---- profile building blocks (selected by the .cfg files via <-) ------------- *)
Chr(c) == [k |-> "chr", c |-> c]
Dot == [k |-> "dot"]
BolL == [k |-> "bol"]
EolL == [k |-> "eol"]
Bref(n) == [k |-> "bref", n |-> n]
Cls(neg, items) == [k |-> "cls", neg |-> neg, items |-> items, sub |-> <<>>, bare |-> FALSE]
ClsSub(neg, items, sub) == [k |-> "cls", neg |-> neg, items |-> items, sub |-> <<sub>>, bare |-> FALSE]
Bare(item) == [k |-> "cls", neg |-> FALSE, items |-> <<item>>, sub |-> <<>>, bare |-> TRUE]
IC(c) == [t |-> "c", c |-> c]
IR(lo, hi) == [t |-> "r", lo |-> lo, hi |-> hi]
IE(e) == [t |-> "e", e |-> e]
Q(min, max, lazy, q) == [min |-> min, max |-> max, lazy |-> lazy, q |-> q]
Fl(i, m, s) == [i |-> i, m |-> m, s |-> s]

QStar == Q(0, -1, FALSE, "s")   QPlus == Q(1, -1, FALSE, "s")   QOpt == Q(0, 1, FALSE, "s")
QStarL == Q(0, -1, TRUE, "s")   QPlusL == Q(1, -1, TRUE, "s")   QOptL == Q(0, 1, TRUE, "s")
QBasic == {QStar, QPlus, QOpt}
QLazy == {QStarL, QPlusL, QOptL}
QCount == {Q(0, 0, FALSE, "n"), Q(1, 1, FALSE, "n"), Q(2, 2, FALSE, "n"), Q(0, 1, FALSE, "n"), Q(1, 2, FALSE, "n"),
           Q(2, -1, FALSE, "n"), Q(0, 2, FALSE, "n")}
QCountL == {Q(1, 2, TRUE, "n"), Q(2, -1, TRUE, "n"), Q(0, 2, TRUE, "n"), Q(2, 2, TRUE, "n")}
QAll == QBasic \cup QLazy \cup QCount \cup QCountL
QBasicLazy == QBasic \cup QLazy
QSmall == {QStar, QPlus, QOpt, QStarL, QPlusL, Q(2, 2, FALSE, "n"), Q(1, 2, FALSE, "n")}
AllFlags == {Fl(i, m, s) : i \in BOOLEAN, m \in BOOLEAN, s \in BOOLEAN}
OnlyNoFlags == {NoFlags}
FlagsMS == {Fl(FALSE, m, s) : m \in BOOLEAN, s \in BOOLEAN}
FlagsI == {Fl(i, FALSE, FALSE) : i \in BOOLEAN}
ShapesAll == {"grp", "ncg", "seq", "alt", "eps"}

LvAB == {Chr(97), Chr(98)}
LvABEol == {Chr(97), Chr(98), EolL}
LvCore == {Chr(97), Chr(98), Dot, Cls(FALSE, <<IC(97), IC(98)>>), Cls(TRUE, <<IC(97)>>)}
LvAnch == {Chr(97), Dot, BolL, EolL, Chr(10), Cls(TRUE, <<IC(97)>>)}
LvBref == {Chr(97), Chr(98), Bref(1), Bref(2)}
LvSem == {Chr(97), Chr(98), Dot, BolL, EolL, Cls(TRUE, <<IC(97)>>), Bref(1)}
LvCase == {Chr(97), Chr(65), Chr(98), Chr(49), Cls(FALSE, <<IR(97, 98)>>), Cls(TRUE, <<IC(65)>>),
           ClsSub(FALSE, <<IR(97, 98)>>, Cls(FALSE, <<IC(66)>>)), Bref(1), Bare(IE("d"))}
LvCaseL1 == {Chr(233), Chr(201), Chr(53), Cls(FALSE, <<IR(224, 233)>>), Cls(TRUE, <<IC(201)>>), Bref(1)}
LvCaseGr == {Chr(955), Chr(923), Chr(1073), Chr(1041), Chr(45), Cls(FALSE, <<IR(945, 955)>>)}
LvCaseDs == {Chr(66600), Chr(66560), Chr(97), Cls(FALSE, <<IR(66600, 66602)>>), Cls(TRUE, <<IC(66560)>>)}

LvAll == {Chr(97), Chr(10), Chr(40), Chr(45), Dot, BolL, EolL, Bref(1), Cls(FALSE, <<IC(97), IR(98, 99), IE("d")>>),
          Cls(TRUE, <<IC(45), IC(93)>>), ClsSub(FALSE, <<IR(97, 122)>>, Cls(FALSE, <<IC(98)>>)), Bare(IE("w")), Bare(IE("S")),
          Bare([t |-> "p", neg |-> FALSE, name |-> "Lu"]), Bare([t |-> "p", neg |-> TRUE, name |-> "N"]),
          Bare([t |-> "b", neg |-> FALSE, name |-> <<71, 114, 101, 101, 107>>]),
          Bare(IE("i")), Bare(IE("C")), Chr(36), Chr(92)}
AorAB == [k |-> "ncg", r |-> [k |-> "alt", xs |-> <<Chr(97), [k |-> "seq", xs |-> <<Chr(97), Chr(98)>>]>>]]   \* (?:a|ab)
ABorA == [k |-> "ncg", r |-> [k |-> "alt", xs |-> <<[k |-> "seq", xs |-> <<Chr(97), Chr(98)>>], Chr(97)>>]]   \* (?:ab|a)
APlus == [k |-> "ncg", r |-> [k |-> "rep", r |-> Chr(97), min |-> 1, max |-> -1, lazy |-> FALSE, q |-> "s"]]   \* (?:a+)
LvLaws == {Chr(97), Chr(98), Dot, Cls(FALSE, <<IC(97), IC(98)>>), BolL, Bref(1), AorAB, APlus}
LvVarLen == {Chr(97), Chr(98), AorAB, ABorA, APlus, EolL}           \* bodies that can end at more than one position
QVarLen == QSmall \cup {Q(0, 2, FALSE, "n"), Q(0, 2, TRUE, "n"), Q(2, 3, FALSE, "n")}   \* ... under bounded quantifiers that start at 0 / end above min
QDial == {QStar, QPlus, QOpt, QStarL, QOptL, Q(1, 1, TRUE, "n"), Q(0, 0, TRUE, "n"), Q(1, 1, FALSE, "n"), Q(2, 2, FALSE, "n"),
          Q(1, 2, TRUE, "n")}
QLaws == {QStar, QPlus, QOpt, QPlusL, Q(0, 0, FALSE, "n"), Q(2, 2, FALSE, "n"), Q(1, 2, FALSE, "n"), Q(2, -1, FALSE, "n"),
          Q(0, 2, TRUE, "n"), Q(1, -1, FALSE, "n")}
LvOpt == {Chr(97), Chr(65), Chr(10), Chr(49), Dot, BolL, EolL, Cls(FALSE, <<IC(97), IC(49)>>), Cls(TRUE, <<IC(97)>>),
          Bare(IE("d")), Bare(IE("s"))}
QOpt8 == {QStar, QPlus, QOpt, QStarL, Q(2, 2, FALSE, "n"), Q(1, 2, FALSE, "n"), Q(2, -1, FALSE, "n"), Q(3, 3, FALSE, "n")}
FlagsIM == {Fl(i, m, FALSE) : i \in BOOLEAN, m \in BOOLEAN}
LvOpt6 == {Chr(97), Chr(65), Chr(10), Dot, BolL, EolL}
GrpA == [k |-> "grp", n |-> 0, r |-> Chr(97)]
GrpB == [k |-> "grp", n |-> 0, r |-> Chr(98)]
LvMlCaps == {BolL, GrpA, GrpB, Chr(10)}                            \* groups in alternatives behind ^ under flag m
ShapesNoGrp == {"ncg", "seq", "alt"}
ShapesSeq == {"seq"}
QNone == {}
ReplG2 == <<91, 36, 49, 124, 36, 50, 93>>                              \* "[$1|$2]"
NcgAB == [k |-> "ncg", r |-> [k |-> "seq", xs |-> <<Chr(97), Chr(98)>>]]                          \* (?:ab)
NcgABorBA == [k |-> "ncg", r |-> [k |-> "alt", xs |-> <<[k |-> "seq", xs |-> <<Chr(97), Chr(98)>>],
                                                      [k |-> "seq", xs |-> <<Chr(98), Chr(97)>>]>>]]          \* (?:ab|ba)
NcgABorB == [k |-> "ncg", r |-> [k |-> "alt", xs |-> <<[k |-> "seq", xs |-> <<Chr(97), Chr(98)>>], Chr(98)>>]]   \* (?:ab|b)
NcgABorBAorB == [k |-> "ncg", r |-> [k |-> "alt", xs |-> <<[k |-> "seq", xs |-> <<Chr(97), Chr(98)>>],
                                                         [k |-> "seq", xs |-> <<Chr(98), Chr(97)>>], Chr(98)>>]]   \* (?:ab|ba|b)
LvOptFix == {BolL, Chr(98), NcgAB, NcgABorBA, NcgABorB, NcgABorBAorB}
LvLawFix == {Chr(98), NcgAB, NcgABorB}
QLawFix == {Q(2, 2, FALSE, "n"), Q(2, -1, FALSE, "n"), Q(1, 2, FALSE, "n"), QStar}         \* multi-character fixed-length bodies, anchors
QFix == {Q(2, 2, FALSE, "n"), Q(1, 2, FALSE, "n"), Q(2, -1, FALSE, "n"), Q(0, 2, FALSE, "n"), QStar, QPlusL}
GrpAorDot == [k |-> "ncg", r |-> [k |-> "alt", xs |-> <<GrpA, Dot>>]]                         \* (?:(a)|.)
GrpAorB == [k |-> "ncg", r |-> [k |-> "alt", xs |-> <<GrpA, Chr(98)>>]]                        \* (?:(a)|b)
LvBrefAlt == {Chr(98), Bref(1), GrpAorDot, GrpAorB}            \* fixed-length bodies with a group in ONE alternative, \1 behind them
QBrefAlt == {Q(2, 2, FALSE, "n"), Q(1, 2, FALSE, "n"), QStar, QPlusL}
LvCaseRange == {Cls(FALSE, <<IR(32, 102)>>), Cls(TRUE, <<IR(32, 102)>>), Cls(FALSE, <<IR(70, 122)>>), Cls(FALSE, <<IR(1024, 1103)>>),
                Cls(FALSE, <<IR(192, 960)>>), ClsSub(FALSE, <<IR(32, 126)>>, Cls(FALSE, <<IR(71, 90)>>)), Chr(103)}
                \* wide ranges with caseless or mismatched end points: [ -f] [^ -f] [F-z] [\u0400-\u044F] [\u00C0-\u03C0] [ -~-[G-Z]]
StarABorC == [k |-> "ncg", r |-> [k |-> "rep", r |-> [k |-> "ncg", r |-> [k |-> "alt", xs |-> <<[k |-> "seq", xs |-> <<Chr(97), Chr(98)>>], Chr(99)>>]],
                                    min |-> 0, max |-> -1, lazy |-> FALSE, q |-> "s"]]                   \* (?:(?:ab|c)*)
LazyStarAorBC == [k |-> "ncg", r |-> [k |-> "rep", r |-> [k |-> "ncg", r |-> [k |-> "alt", xs |-> <<Chr(97), [k |-> "seq", xs |-> <<Chr(98), Chr(99)>>]>>]],
                                        min |-> 0, max |-> -1, lazy |-> TRUE, q |-> "s"]]                \* (?:(?:a|bc)*?)
AltStarOrD == [k |-> "ncg", r |-> [k |-> "alt", xs |-> <<StarABorC.r, Chr(100)>>]]                   \* (?:(?:ab|c)*|d)
AltDOrLazy == [k |-> "ncg", r |-> [k |-> "alt", xs |-> <<Chr(100), LazyStarAorBC.r>>]]               \* (?:d|(?:a|bc)*?)
LvAltNull == {Chr(120), Chr(97), StarABorC, AltStarOrD, AltDOrLazy}     \* alternatives that match nothing or a variable-length run
CatP(neg, name) == Bare([t |-> "p", neg |-> neg, name |-> name])
LvCatCase == {CatP(FALSE, "Ll"), CatP(FALSE, "Lu"), CatP(TRUE, "Lu"), Chr(65), Chr(97), Chr(49)}   \* one-case category classes next to letters (flag i)
QCatCase == {QStar, QPlus, QOpt, QStarL, Q(1, 3, FALSE, "n")}
NestStar == [k |-> "rep", min |-> 0, max |-> -1, lazy |-> FALSE, q |-> "s",
             r |-> [k |-> "grp", n |-> 0, r |-> [k |-> "alt", xs |-> <<GrpA, Chr(98)>>]]]                 \* ((a)|b)*
NestOpt == [k |-> "rep", min |-> 0, max |-> 1, lazy |-> FALSE, q |-> "s",
            r |-> [k |-> "grp", n |-> 0, r |-> [k |-> "seq", xs |-> <<GrpA, Chr(98)>>]]]                  \* ((a)b)?
LvNestClear == {NestStar, NestOpt, Chr(99), Bref(2), Bref(1)}     \* nested groups inside a repeat that an outer loop enters again
QNestClear == {QPlus, QStar, Q(2, 2, FALSE, "n")}
ShapesNcgSeq == {"ncg", "seq"}
NcgAOptB == [k |-> "ncg", r |-> [k |-> "seq", xs |-> <<Chr(97), [k |-> "rep", r |-> Chr(98), min |-> 0, max |-> 1, lazy |-> FALSE, q |-> "s"]>>]]   \* (?:ab?)
NcgOptAB == [k |-> "ncg", r |-> [k |-> "seq", xs |-> <<[k |-> "rep", r |-> Chr(97), min |-> 0, max |-> 1, lazy |-> FALSE, q |-> "s"], Chr(98)>>]]   \* (?:a?b)
LvSeqInit == {Chr(97), Chr(98), NcgAOptB, NcgOptAB}      \* quantified letters in front of quantified variable-length sequences
QSeqInit == {QStar, QPlus, QOpt, Q(1, 3, FALSE, "n"), QStarL}
GrpBolOrA == [k |-> "grp", n |-> 0, r |-> [k |-> "alt", xs |-> <<BolL, Chr(97)>>]]                         \* (^|a)
GrpAOrEps == [k |-> "grp", n |-> 0, r |-> [k |-> "alt", xs |-> <<Chr(97), [k |-> "seq", xs |-> <<>>]>>]]     \* (a|)
GrpEol == [k |-> "grp", n |-> 0, r |-> EolL]                                                                \* ($)
LvEmptyGrp == {GrpBolOrA, GrpAOrEps, GrpEol, Chr(98)}       \* groups that come out empty WITHOUT any ? * or { in the pattern
LvNest == {Chr(97), Chr(98), GrpA, GrpB}                             \* groups under loops under loops
LvCaseOpt == {Chr(233), Chr(201), Chr(955), Chr(923), Chr(53)}        \* non-ASCII letters next to quantified letters (flag i)
LvPunct == {Chr(91), Chr(123), Chr(94), Chr(126), Chr(64), Chr(96), Chr(95), Chr(97),
            Cls(FALSE, <<IC(93), IC(92)>>)}                                  \* ASCII punctuation 0x20 apart: no case relation
FlagsS == {NoFlags, Fl(FALSE, FALSE, TRUE)}
GrpAStar == [k |-> "grp", n |-> 0, r |-> [k |-> "rep", r |-> Chr(97), min |-> 0, max |-> -1, lazy |-> FALSE, q |-> "s"]]   \* (a*)
NcgBolAOpt == [k |-> "ncg", r |-> [k |-> "seq", xs |-> <<BolL, [k |-> "rep", r |-> Chr(97), min |-> 0, max |-> 1, lazy |-> FALSE, q |-> "s"]>>]]
AltEolB == [k |-> "ncg", r |-> [k |-> "alt", xs |-> <<EolL, Chr(98)>>]]                      \* (?:$|b)
AltABol == [k |-> "ncg", r |-> [k |-> "alt", xs |-> <<Chr(97), BolL>>]]                      \* (?:a|^)
AltBolEolB == [k |-> "ncg", r |-> [k |-> "alt", xs |-> <<BolL, EolL, Chr(98)>>]]               \* (?:^|$|b)
LvDynEmpty == {BolL, EolL, Chr(97), Bref(1), GrpAStar, NcgBolAOpt, AltEolB, AltABol, AltBolEolB}    \* bodies that match empty only dynamically
QCount2 == {Q(2, 2, FALSE, "n"), Q(2, -1, FALSE, "n"), Q(1, 2, FALSE, "n"), Q(3, 3, FALSE, "n"), QPlus, QStar, Q(2, 2, TRUE, "n")}
LvAstral == {Chr(66560), Chr(769), Chr(97), Dot, Cls(FALSE, <<IC(66560), IC(97)>>)}
LvLoop == {Chr(97), Chr(98), BolL, EolL, Bref(1)}
FlagsM == {NoFlags, Fl(FALSE, TRUE, FALSE)}
QOptOnly == {QOpt}
QPlusOnly == {QPlus}
LvWs == {Chr(97), Cls(FALSE, <<IC(97), IC(32)>>), Chr(91), Chr(93), Chr(92), Bare(IE("d")),
         Bare([t |-> "p", neg |-> FALSE, name |-> "Lu"]), Cls(TRUE, <<IC(9), IR(97, 98)>>),
         ClsSub(FALSE, <<IR(97, 99), IC(32)>>, Cls(FALSE, <<IC(98)>>)),                  \* [a-c -[b]] : a subtraction
         Cls(FALSE, <<IC(93), IC(97)>>),                                                   \* [\]a] : an escaped ] inside a class
         Cls(FALSE, <<[t |-> "p", neg |-> FALSE, name |-> "Lu"], IC(97)>>)}                \* [\p{Lu}a] : a name inside a class
LvWsCls == {Cls(FALSE, <<IC(93), IC(32)>>), Cls(TRUE, <<IC(93), IC(9), IC(32)>>), Cls(FALSE, <<IC(97), IC(93), IC(32), IC(98)>>),
            Cls(FALSE, <<IC(32), IC(93)>>), Chr(97)}                 \* [\] ] [^\]<TAB> ] [a\] b] [ \]] : white space after an escaped ] in a class
NcgA == [k |-> "ncg", r |-> Chr(97)]                                                            \* (?:a)
GrpOptB == [k |-> "grp", n |-> 0, r |-> [k |-> "rep", r |-> Chr(98), min |-> 0, max |-> 1, lazy |-> FALSE, q |-> "s"]]   \* (b?)
LvWsNest == {NcgA, GrpOptB, Chr(97)}          \* (?: ...) in front of nested groups that match nothing: what analyze's nesting depends on
ShapesGrpSeq == {"grp", "seq"}
LvClsParen == {Cls(TRUE, <<IC(40)>>), Cls(FALSE, <<IC(40), IC(97)>>), Cls(TRUE, <<IC(93)>>), Cls(FALSE, <<IC(91), IC(41)>>),
               GrpOptB, Chr(97)}                                  \* brackets and parentheses INSIDE classes, in front of groups that match nothing
LvDial == {Chr(97), BolL, EolL, Chr(36), Chr(94), Bref(1), Dot, Cls(FALSE, <<IC(97), IC(94)>>)}
LvBrefI == {Chr(97), Chr(65), Chr(98), Bref(1)}
Grp0(r) == [k |-> "grp", n |-> 0, r |-> r]
OptG(c) == [k |-> "rep", r |-> Grp0(Chr(c)), min |-> 0, max |-> 1, lazy |-> FALSE, q |-> "s"]
GSeq(n) == [k |-> "seq", xs |-> [j \in 1..n |-> IF j = 1 THEN Grp0(Chr(97)) ELSE OptG(IF j % 2 = 0 THEN 98 ELSE 97)]]
LvG12 == {GSeq(9), GSeq(10), GSeq(12)}                    \* (a)(b)?(a)?(b)? ... with 9, 10 and 12 groups
ReplG12 == <<36,49,124,36,50,124,36,49,48,124,36,49,49,124,36,49,50,124,36,49,51,124,36,51>>   \* $1|$2|$10|$11|$12|$13|$3

(* ---- theorems checked on every finished state (DESIGN 3.3) ------------------------ *)
(* (the program record is bound once per state: TLC re-evaluates state-level definitions at every use) *)
ProgOf == MkProg(Ast, Ng, fl, FALSE)
T1_RoundTrip == Done => LET pr == Parse(Render(Ast), TRUE) IN pr.v = "ok" /\ pr.ast = Ast /\ pr.ng = Ng
T2On(r, ng, F, strict) == \A s \in Inputs : \A i \in 1..Len(s)+1 :
        LET o == Ord(r, s, i, NoCaps(ng), F)  p == Paths(r, s, i, NoCaps(ng), F) IN
        /\ ToSet(o) \subseteq p
        /\ (HasBref(r) /\ ~strict) \/ ((o = <<>>) = (p = {}))   \* is_match is order-free for every pattern outside LangUnspec
                                                                 \* (with a back-reference AND an empty-matching loop body the rule
                                                                 \* "an empty iteration is not continued" can prune the only path
                                                                 \* on which the group holds what \N needs: ((?:$|b))+\1)
        /\ strict => ToSet(o) = p
        /\ FirstAt(r, ng, s, i, F) = (IF o = <<>> THEN <<>> ELSE o[1])     \* T2b: the backtracking evaluator
T2_OrderFree == Done => LET N == Number(stk[1]) IN T2On(N.r, N.st.ng, fl, Strict(N.r))
T3On(P) == \A s \in Inputs :
   LET ms == Matches(P, s) IN
   /\ \A j \in 1..Len(ms) : /\ ms[j].st < ms[j].en
                            /\ ms[j].st = LeftmostStart(P.ast, P.ng, s, IF j = 1 THEN 1 ELSE ms[j-1].en, P.F)
                            /\ ms[j].en \in EndsAt(P.ast, P.ng, s, ms[j].st, P.F)
                            /\ \A g \in 1..P.ng : ms[j].caps[g] # Unset =>                        \* T4
                                  /\ ms[j].st <= ms[j].caps[g][1] /\ ms[j].caps[g][1] <= ms[j].caps[g][2]
                                  /\ ms[j].caps[g][2] <= ms[j].en
   /\ LeftmostStart(P.ast, P.ng, s, IF ms = <<>> THEN 1 ELSE ms[Len(ms)].en, P.F) = 0
T3_Leftmost == Done => LET P == ProgOf IN P.nullable \/ T3On(P)
RECURSIVE TreeText(_)
TreeText(t) == Flat([k \in 1..Len(t) |-> IF "s" \in DOMAIN t[k] THEN t[k].s ELSE TreeText(t[k].v)])
T5On(P) == \A s \in Inputs :
   LET ana == OpAnalyze(P, s).v  tok == OpTokens(P, s).v  ms == Matches(P, s) IN
   /\ Flat([k \in 1..Len(ana) |-> IF "n" \in DOMAIN ana[k] THEN ana[k].n ELSE TreeText(ana[k].m)]) = s
   /\ (s # <<>>) => Len(tok) = Len(ms) + 1
   /\ OpReplace(P, s, <<36, 48>>).v = s                                           \* "$0"
   /\ (s # <<>>) => OpReplace(P, s, <<35>>).v = Flat([k \in 1..Len(tok) |-> (IF k > 1 THEN <<35>> ELSE <<>>) \o tok[k]])
   /\ Len(tok) <= Len(s) + 1 /\ Len(ana) <= 2 * Len(s) + 1                        \* T6 bounds
T5_Partition == Done => LET P == ProgOf IN P.nullable \/ T5On(P)
T7_Nullable == Done => LET P == ProgOf IN
   P.nullable \/ \A s \in Inputs : \A i \in 1..Len(s)+1 : i \notin EndsAt(P.ast, P.ng, s, i, P.F)

(* white-space variants for flag x (C14): one character inserted at every position *)
WsChars == {9, 10, 13, 32, 12, 11, 160}           \* the four that flag x removes, and three that it must not
InsAt(p, k, c) == SubSeq(p, 1, k) \o <<c>> \o SubSeq(p, k + 1, Len(p))
WsSources(pat, F) == {<<InsAt(pat, k, c), FlagCps(F) \o <<120>>, TRUE>> : k \in 0..Len(pat), c \in WsChars}

(* two insertions (a removed character can change how a LATER one is treated) *)
Ws2Chars == {32, 10}
Ws2Sources(pat, F) == {<<InsAt(InsAt(pat, k2, c2), k1, c1), FlagCps(F) \o <<120>>, TRUE>> :
                         k1 \in 0..Len(pat), k2 \in 0..Len(pat), c1 \in Ws2Chars, c2 \in Ws2Chars}
Sources(a, F) ==
  LET pat == Render(a) IN
  (IF "base" \in Variants THEN {<<pat, FlagCps(F), TRUE>>} ELSE {})
  \cup (IF "xsd" \in Variants THEN {<<pat, FlagCps(F), FALSE>>} ELSE {})
  \cup (IF "ws" \in Variants THEN WsSources(pat, F) ELSE {})
  \cup (IF "wsxsd" \in Variants THEN {<<w[1], w[2], FALSE>> : w \in WsSources(pat, F)} ELSE {})
  \cup (IF "ws2" \in Variants THEN Ws2Sources(pat, F) ELSE {})
(* law pairs (C20): both spellings are replayed together and must agree with the spec AND with each other *)
LawPairs(a, F) == {w \in Rewrites(a) : w.law # "uncapture" \/ ~HasBref(a)}
PrintPair(a, w, F) ==
  LET b1 == BehOfSrc(<<Render(a), FlagCps(F), TRUE>>)
      b2 == BehOfSrc(<<Render(Number(w.ast).r), FlagCps(F), TRUE>>)
  IN IF b1 = <<>> \/ b2 = <<>> THEN TRUE
     ELSE PrintT(<<"P", ToJson([a |-> b1, b |-> b2, same |-> w.same, law |-> w.law])>>)
Emit == Done => (EmitMode = "none" \/ (/\ \A src \in Sources(Ast, fl) : PrintSrc(src)
                                       /\ ("laws" \in Variants => \A w \in LawPairs(Ast, fl) : PrintPair(Ast, w, fl))))

(* T16 (C20): every law preserves the language on every input, and the ordered-choice match list where claimed *)
T16_Laws == Done => \A w \in LawPairs(Ast, fl) :
  LET n == Number(w.ast)  b == n.r  ngb == n.st.ng IN
  /\ Parse(Render(b), TRUE).v = "ok" /\ Parse(Render(b), TRUE).ast = b             \* the rewrite is well-formed
  /\ \A s \in Inputs :
       /\ IsMatch(Ast, Ng, s, fl) = IsMatch(b, ngb, s, fl)
       /\ (w.same # "m" /\ Strict(Ast) /\ Strict(b) /\ ~Nullable(Ast, Ng, fl) /\ ~(HasBref(Ast) /\ IterAmbig(Ast))) =>
             LET ma == AllMatches(Ast, Ng, s, fl)  mb == AllMatches(b, ngb, s, fl) IN
             [j \in 1..Len(ma) |-> <<ma[j].st, ma[j].en>>] = [j \in 1..Len(mb) |-> <<mb[j].st, mb[j].en>>]

(* T18 (C08, design level): with the facts the MODEL derives from the lowered operator tree, the search loop of  *)
(* Search.tla finds exactly the leftmost match start from every start position - every shortcut is a pure        *)
(* optimisation of "try every position".                                                                         *)
T18_SearchSound == Done => LET P == ProgOf IN
  LangUnspec(P) \/ LET o == Program(P, Render(P.ast))  fa == FactsOf(P, o) IN
     \A s \in Inputs : \A i \in 1..Len(s) + 1 :
        SearchStart(P, fa, s, i) = LeftmostStart(P.ast, P.ng, s, i, P.F)

(* T21 (C08, C20 - design level): the operator tree the model lowers the pattern to (Engine!Program, with every     *)
(* "rep?" resolved to the non-backtracking repeat exactly where NoAmbig allows it) computes, operator by operator    *)
(* the way the code does (OpSem!OpOrd), the first match the reference semantics defines.  Outside the strict        *)
(* fragment, where the lowering rewrites quantifiers over empty-matching terms, the claim is about the language.     *)
T21_OpSem == Done => LET P == ProgOf IN
  LangUnspec(P) \/ LET U == Alpha \cup {Counterpart(c) : c \in Alpha} \cup {10}
                       o == Resolve(Program(P, Render(P.ast)), P.F, U) IN
     \A s \in Inputs : \A i \in 1..Len(s) + 1 :
        LET a == OpFirstAt(o, P.ng, s, i, P.F) IN
        IF P.strict /\ ~P.iterambig THEN a = FirstAt(P.ast, P.ng, s, i, P.F)
        ELSE IF P.strict THEN (a # <<>> /\ a[1] = FirstAt(P.ast, P.ng, s, i, P.F)[1]) \/ (a = <<>> /\ FirstAt(P.ast, P.ng, s, i, P.F) = <<>>)
        ELSE (a # <<>>) = IsMatchAt(P.ast, P.ng, s, i, P.F)

(* T20 (C04, C15, C06 - design level): the scan loops of Scan.tla (replace with its latch, TokenIter, AnalyzeIter)     *)
(* compute exactly what the declarative Api functions specify, on every input                                         *)
T20_ScanRefines == Done => LET P == ProgOf IN
  \A s \in Inputs : ScanRefines(P, s, Repl2) /\ ScanRefines(P, s, ReplSpan)

(* T11 (C14): under flag x, white space inserted outside class expressions changes nothing; inside a class    *)
(* expression it is kept.  Stated on the parser: Parse(Strip(p')) = Parse(p) whenever the insertion point is *)
(* outside every class expression.                                                                           *)
RECURSIVE DepthAt(_, _, _, _, _)
DepthAt(p, i, k, depth, esc) ==                 \* class nesting depth just after the first k characters of p
  IF i > k THEN depth
  ELSE LET c == p[i] IN
    IF esc THEN DepthAt(p, i + 1, k, depth, FALSE)
    ELSE IF c = 92 THEN DepthAt(p, i + 1, k, depth, TRUE)
    ELSE IF c = 91 THEN DepthAt(p, i + 1, k, depth + 1, FALSE)
    ELSE IF c = 93 /\ depth > 0 THEN DepthAt(p, i + 1, k, depth - 1, FALSE)
    ELSE DepthAt(p, i + 1, k, depth, FALSE)
T11_XStrip == Done => LET pat == Render(Ast) IN
  \A k \in 0..Len(pat) : \A c \in Ws4 :
     DepthAt(pat, 1, k, 0, FALSE) = 0 => Parse(Strip(InsAt(pat, k, c)), TRUE) = Parse(pat, TRUE)
(* T13 (C17): the XSD dialect accepts a subset, and on it yields the same AST unless ^ or $ occur *)
RECURSIVE HasAnchorChar(_)
HasAnchorChar(p) == \E k \in 1..Len(p) : p[k] \in {94, 36}
T13_Dialect == Done => LET pat == Render(Ast)  x == Parse(pat, TRUE)  d == Parse(pat, FALSE) IN
  /\ d.v = "ok" => x.v = "ok"
  /\ (d.v = "ok" /\ ~HasAnchorChar(pat)) => d = x
=============================================================================
