------------------------------- MODULE MCGen -------------------------------
(* Model-checking configurations over the pattern builder: every finished    *)
(* (pattern, flags) state is (1) checked against the theorems of DESIGN 3.3  *)
(* on every input up to the bound and (2) printed as one JSON behaviour with *)
(* the spec's expected result of every API call, to be replayed into the     *)
(* real code.                                                                *)
EXTENDS Gen, ApiOps

CONSTANTS Alpha, MaxLen, Repl2, EmitMode

(* ---- profile building blocks (selected by the .cfg files via <-) ------------- *)
Chr(c) == [k |-> "chr", c |-> c]
Dot == [k |-> "dot"]
BolL == [k |-> "bol"]
EolL == [k |-> "eol"]
Bref(n) == [k |-> "bref", n |-> n]
Cls(neg, items) == [k |-> "cls", neg |-> neg, items |-> items, sub |-> <<>>, bare |-> FALSE]
ClsSub(neg, items, sub) == [k |-> "cls", neg |-> neg, items |-> items, sub |-> <<sub>>, bare |-> FALSE]
Bare(item) == [k |-> "cls", neg |-> FALSE, items |-> <<item>>, sub |-> <<>>, bare |-> TRUE]
IC(c) == [t |-> "c", c |-> c]
IR(lo, hi) == [t |-> "r", lo |-> lo, hi |-> hi]
IE(e) == [t |-> "e", e |-> e]
Q(min, max, lazy, q) == [min |-> min, max |-> max, lazy |-> lazy, q |-> q]
Fl(i, m, s) == [i |-> i, m |-> m, s |-> s]

QStar == Q(0, -1, FALSE, "s")   QPlus == Q(1, -1, FALSE, "s")   QOpt == Q(0, 1, FALSE, "s")
QStarL == Q(0, -1, TRUE, "s")   QPlusL == Q(1, -1, TRUE, "s")   QOptL == Q(0, 1, TRUE, "s")
QBasic == {QStar, QPlus, QOpt}
QLazy == {QStarL, QPlusL, QOptL}
QCount == {Q(0, 0, FALSE, "n"), Q(1, 1, FALSE, "n"), Q(2, 2, FALSE, "n"), Q(0, 1, FALSE, "n"), Q(1, 2, FALSE, "n"),
           Q(2, -1, FALSE, "n"), Q(0, 2, FALSE, "n")}
QCountL == {Q(1, 2, TRUE, "n"), Q(2, -1, TRUE, "n"), Q(0, 2, TRUE, "n"), Q(2, 2, TRUE, "n")}
QAll == QBasic \cup QLazy \cup QCount \cup QCountL
QBasicLazy == QBasic \cup QLazy
QSmall == {QStar, QPlus, QOpt, QStarL, QPlusL, Q(2, 2, FALSE, "n"), Q(1, 2, FALSE, "n")}
AllFlags == {Fl(i, m, s) : i \in BOOLEAN, m \in BOOLEAN, s \in BOOLEAN}
OnlyNoFlags == {NoFlags}
FlagsMS == {Fl(FALSE, m, s) : m \in BOOLEAN, s \in BOOLEAN}
FlagsI == {Fl(i, FALSE, FALSE) : i \in BOOLEAN}
ShapesAll == {"grp", "ncg", "seq", "alt", "eps"}

LvAB == {Chr(97), Chr(98)}
LvCore == {Chr(97), Chr(98), Dot, Cls(FALSE, <<IC(97), IC(98)>>), Cls(TRUE, <<IC(97)>>)}
LvAnch == {Chr(97), Dot, BolL, EolL, Chr(10), Cls(TRUE, <<IC(97)>>)}
LvBref == {Chr(97), Chr(98), Bref(1), Bref(2)}
LvSem == {Chr(97), Chr(98), Dot, BolL, EolL, Cls(TRUE, <<IC(97)>>), Bref(1)}
LvCase == {Chr(97), Chr(65), Chr(98), Chr(49), Cls(FALSE, <<IR(97, 98)>>), Cls(TRUE, <<IC(65)>>),
           ClsSub(FALSE, <<IR(97, 98)>>, Cls(FALSE, <<IC(66)>>)), Bref(1), Bare(IE("d"))}
LvCaseL1 == {Chr(233), Chr(201), Chr(53), Cls(FALSE, <<IR(224, 233)>>), Cls(TRUE, <<IC(201)>>), Bref(1)}
LvCaseGr == {Chr(955), Chr(923), Chr(1073), Chr(1041), Chr(45), Cls(FALSE, <<IR(945, 955)>>)}
LvCaseDs == {Chr(66600), Chr(66560), Chr(97), Cls(FALSE, <<IR(66600, 66602)>>), Cls(TRUE, <<IC(66560)>>)}

(* ---- inputs -------------------------------------------------------------------- *)
Inputs == UNION {[1..n -> Alpha] : n \in 0..MaxLen}
InputSeq == SetToSeq(Inputs)

(* ---- theorems checked on every finished state (DESIGN 3.3) ------------------------ *)
(* (the program record is bound once per state: TLC re-evaluates state-level definitions at every use) *)
ProgOf == MkProg(Ast, Ng, fl, FALSE)
T1_RoundTrip == Done => LET pr == Parse(Render(Ast), TRUE) IN pr.v = "ok" /\ pr.ast = Ast /\ pr.ng = Ng
T2On(r, ng, F, strict) == \A s \in Inputs : \A i \in 1..Len(s)+1 :
        LET o == Ord(r, s, i, NoCaps(ng), F)  p == Paths(r, s, i, NoCaps(ng), F) IN
        /\ ToSet(o) \subseteq p
        /\ (o = <<>>) = (p = {})                                 \* is_match is order-free for EVERY pattern
        /\ strict => ToSet(o) = p
        /\ FirstAt(r, ng, s, i, F) = (IF o = <<>> THEN <<>> ELSE o[1])     \* T2b: the backtracking evaluator
T2_OrderFree == Done => LET N == Number(stk[1]) IN T2On(N.r, N.st.ng, fl, Strict(N.r))
T3On(P) == \A s \in Inputs :
   LET ms == Matches(P, s) IN
   /\ \A j \in 1..Len(ms) : /\ ms[j].st < ms[j].en
                            /\ ms[j].st = LeftmostStart(P.ast, P.ng, s, IF j = 1 THEN 1 ELSE ms[j-1].en, P.F)
                            /\ ms[j].en \in EndsAt(P.ast, P.ng, s, ms[j].st, P.F)
                            /\ \A g \in 1..P.ng : ms[j].caps[g] # Unset =>                        \* T4
                                  /\ ms[j].st <= ms[j].caps[g][1] /\ ms[j].caps[g][1] <= ms[j].caps[g][2]
                                  /\ ms[j].caps[g][2] <= ms[j].en
   /\ LeftmostStart(P.ast, P.ng, s, IF ms = <<>> THEN 1 ELSE ms[Len(ms)].en, P.F) = 0
T3_Leftmost == Done => LET P == ProgOf IN P.nullable \/ T3On(P)
RECURSIVE TreeText(_)
TreeText(t) == Flat([k \in 1..Len(t) |-> IF "s" \in DOMAIN t[k] THEN t[k].s ELSE TreeText(t[k].v)])
T5On(P) == \A s \in Inputs :
   LET ana == OpAnalyze(P, s).v  tok == OpTokens(P, s).v  ms == Matches(P, s) IN
   /\ Flat([k \in 1..Len(ana) |-> IF "n" \in DOMAIN ana[k] THEN ana[k].n ELSE TreeText(ana[k].m)]) = s
   /\ (s # <<>>) => Len(tok) = Len(ms) + 1
   /\ OpReplace(P, s, <<36, 48>>).v = s                                           \* "$0"
   /\ (s # <<>>) => OpReplace(P, s, <<35>>).v = Flat([k \in 1..Len(tok) |-> (IF k > 1 THEN <<35>> ELSE <<>>) \o tok[k]])
   /\ Len(tok) <= Len(s) + 1 /\ Len(ana) <= 2 * Len(s) + 1                        \* T6 bounds
T5_Partition == Done => LET P == ProgOf IN P.nullable \/ T5On(P)
T7_Nullable == Done => LET P == ProgOf IN
   P.nullable \/ \A s \in Inputs : \A i \in 1..Len(s)+1 : i \notin EndsAt(P.ast, P.ng, s, i, P.F)

(* ---- the behaviour printed for replay ------------------------------------------------ *)
FlagCps(F) == (IF F.i THEN <<105>> ELSE <<>>) \o (IF F.m THEN <<109>> ELSE <<>>) \o (IF F.s THEN <<115>> ELSE <<>>)
ReplSpan == <<91, 36, 48, 93>>                                                    \* "[$0]"
CaseOf(P, s) ==
  IF InputUnspec(P, s) THEN [s |-> s, u |-> TRUE]
  ELSE IF SpanUnspec(P, s) \/ P.nullable
  THEN [s |-> s, m |-> OpIsMatch(P, s).v, def |-> FALSE]
  ELSE LET ms == Matches(P, s) IN
       [s |-> s, m |-> OpIsMatch(P, s).v, def |-> TRUE,
        r0 |-> OpReplace(P, s, ReplSpan), rg |-> OpReplace(P, s, Repl2),
        tok |-> OpTokens(P, s), ana |-> OpAnalyze(P, s),
        capdef |-> ~P.iterambig,
        treedef |-> ~P.iterambig /\ \A j \in 1..Len(ms) : TreeDefinite(P, ms[j])]
BehOf(P) == [pat |-> Render(P.ast), flags |-> FlagCps(P.F), x |-> TRUE, ng |-> P.ng, nullable |-> P.nullable,
        strict |-> P.strict, langu |-> LangUnspec(P), repl2 |-> Repl2,
        cases |-> IF LangUnspec(P) THEN <<>> ELSE [k \in 1..Len(InputSeq) |-> CaseOf(P, InputSeq[k])]]
Emit == Done => (EmitMode = "none" \/ PrintT(<<"B", ToJson(BehOf(ProgOf))>>))
=============================================================================
