------------------------------- MODULE ApiOps -------------------------------
(* The public API of regexml as pure functions of (pattern, flags, dialect)    *)
(* and the call's arguments.  Results are tagged records so that every JSON    *)
(* field is single-typed:                                                      *)
(*   compile      [k|->"ok"] | [k|->"err", e|->"Syntax"|"InvalidFlags"] | [k|->"uns"]                   *)
(*   is_match     [k|->"ok", v|->BOOLEAN]                                      *)
(*   replace_all  [k|->"ok", v|->text] | [k|->"err", e|->"MatchesEmptyString"|"InvalidReplacementString"] *)
(*   tokenize / analyze: open = [k|->"ok"] | [k|->"err", e|->"MatchesEmptyString"];                      *)
(*                next = [k|->"some", v|->item] | [k|->"none"]                 *)
(* A prog is [ast, ng, F, lit, par, nullable, strict, bref].                   *)
EXTENDS OpSem

(* ---- compile ------------------------------------------------------------------ *)
RECURSIVE LitAst(_)
LitSeq(p) == [k \in 1..Len(p) |-> [k |-> "chr", c |-> p[k]]]
LitAst(p) == IF Len(p) = 1 THEN [k |-> "chr", c |-> p[1]] ELSE [k |-> "seq", xs |-> LitSeq(p)]

MkProg(ast, ng, F, lit) ==
  [ast |-> ast, ng |-> ng, F |-> F, lit |-> lit,
   par |-> ParentFn(ast, ng),
   nullable |-> Nullable(ast, ng, F),
   strict |-> Strict(ast), bref |-> HasBref(ast), iterambig |-> IterAmbig(ast),
   sem |-> "ref"]                              \* which semantics the operations below use: see EngView

(* Compile(pat, flags, X) -> [k |-> "ok", prog] | [k |-> "err", e |-> set of acceptable error kinds] | [k |-> "uns"] *)
Compile(pat, flags, X) ==
  LET fl == ParseFlags(flags, X) IN
  IF fl.v = "uns" THEN [k |-> "uns"]
  ELSE LET F == IF fl.v = "ok" THEN [i |-> fl.i, m |-> fl.m, s |-> fl.s] ELSE NoFlags
           lit == fl.v = "ok" /\ fl.q
           pr == IF lit THEN [v |-> "ok", ast |-> LitAst(pat), ng |-> 0]
                 ELSE Parse(IF fl.v = "ok" /\ fl.x THEN Strip(pat) ELSE pat, X)
       IN IF fl.v = "bad"
          THEN [k |-> "err", e |-> IF pr.v = "ok" THEN {"InvalidFlags"} ELSE {"InvalidFlags", "Syntax"}]
          ELSE IF pr.v = "syn" THEN [k |-> "err", e |-> {"Syntax"}]
          ELSE IF pr.v = "uns" THEN [k |-> "uns"]
          ELSE [k |-> "ok", prog |-> MkProg(pr.ast, pr.ng, F, lit)]

(* ---- UNSPEC zones decided from the input of the case only (DESIGN 3.4) ------------ *)
RECURSIVE PatChars(_), ClsChars(_), UsesGc(_), ClsUsesGc(_)
ClsChars(c) == UNION {CASE c.items[k].t = "c" -> {<<c.items[k].c, c.items[k].c>>}
                        [] c.items[k].t = "r" -> {<<c.items[k].lo, c.items[k].hi>>}
                        [] OTHER -> {} : k \in 1..Len(c.items)}
               \cup (IF c.sub = <<>> THEN {} ELSE ClsChars(c.sub[1]))
PatChars(r) ==                               \* the literal characters / ranges of a pattern, as <<lo,hi>> pairs
  CASE r.k = "chr" -> {<<r.c, r.c>>}
    [] r.k = "cls" -> ClsChars(r)
    [] r.k \in {"seq", "alt"} -> UNION {PatChars(r.xs[x]) : x \in 1..Len(r.xs)}
    [] r.k \in {"grp", "ncg", "rep"} -> PatChars(r.r)
    [] OTHER -> {}
ClsUsesGc(c) == (\E k \in 1..Len(c.items) : c.items[k].t = "p" \/ (c.items[k].t = "e" /\ c.items[k].e \in {"d","D","w","W"}))
                \/ (c.sub # <<>> /\ ClsUsesGc(c.sub[1]))
UsesGc(r) ==
  CASE r.k = "cls" -> ClsUsesGc(r)
    [] r.k \in {"seq", "alt"} -> \E x \in 1..Len(r.xs) : UsesGc(r.xs[x])
    [] r.k \in {"grp", "ncg", "rep"} -> UsesGc(r.r)
    [] OTHER -> FALSE
(* flag i: the spec has an opinion only when every input character is CaseKnown and no literal or range of *)
(* the pattern touches an Exotic character                                                               *)
CaseUnspec(prog, s) ==
  prog.F.i /\ (\/ \E k \in 1..Len(s) : ~CaseKnown(s[k])
               \/ \E pr \in PatChars(prog.ast) : \E e \in Exotic : InR(e, pr[1], pr[2]))
GcUnspec(prog, s) == UsesGc(prog.ast) /\ \E k \in 1..Len(s) : ~GcKnown(s[k])
(* is_match / nullability are undefined only for non-strict patterns with back-references *)
LangUnspec(prog) == prog.bref /\ (~prog.strict \/ prog.iterambig)
InputUnspec(prog, s) == CaseUnspec(prog, s) \/ GcUnspec(prog, s) \/ LangUnspec(prog)
(* spans, captures and everything derived from them are definite only for strict patterns *)
SpanUnspec(prog, s) == InputUnspec(prog, s) \/ ~prog.strict
CapUnspec(prog, s) == SpanUnspec(prog, s) \/ prog.iterambig

(* ---- the engine's own capture discipline, as a second view of a program ----------------------------- *)
(* Where the reference semantics is not the only acceptable one (IterAmbig: a group inside a quantified      *)
(* term that a later execution of the term skips), the engine's design is the other: the groups inside a    *)
(* Repeat are cleared when it is entered, everything else as the reference.  EngView(prog) makes every      *)
(* operation of this module compute with OpSem!OpOrd on the operator tree the model lowers the pattern to   *)
(* (every "rep?" kept as the backtracking repeat: by T21 the non-backtracking one computes the same).       *)
(* Trace validation accepts, in that zone, exactly what one of the two views gives: a result that neither  *)
(* semantics explains (a capture from an abandoned path, say) is reported.                                  *)
RECURSIVE PlainRep(_)
PlainRep(o) ==
  CASE o.k = "rep?" -> [o EXCEPT !.k = IF MLen(o.r) = -1 THEN "repeat" ELSE IF o.greedy THEN "greedyfixed" ELSE "reluctantfixed",
                                 !.r = PlainRep(o.r)]
    [] o.k = "capture" \/ IsRep(o) -> [o EXCEPT !.r = PlainRep(o.r)]
    [] o.k \in {"choice", "sequence"} -> [o EXCEPT !.xs = [j \in 1..Len(o.xs) |-> PlainRep(o.xs[j])]]
    [] OTHER -> o
EngTree(prog) == PlainRep(Program(prog, <<>>))
EngFirstAt(prog, tree, s, i) == OpFirstAt(tree, prog.ng, s, i, prog.F)
RECURSIVE EngFirstFrom(_, _, _, _), EngAllFrom(_, _, _, _, _)
EngFirstFrom(prog, tree, s, from) ==
  IF from > Len(s) + 1 THEN <<>>
  ELSE LET o == EngFirstAt(prog, tree, s, from) IN
       IF o # <<>> THEN [st |-> from, en |-> o[1], caps |-> o[2]] ELSE EngFirstFrom(prog, tree, s, from + 1)
EngAllFrom(prog, tree, s, from, acc) ==
  LET m == EngFirstFrom(prog, tree, s, from) IN
  IF m = <<>> THEN acc
  ELSE IF m.en > m.st THEN EngAllFrom(prog, tree, s, m.en, Append(acc, m))
  ELSE IF m.en > Len(s) THEN Append(acc, m)
  ELSE EngAllFrom(prog, tree, s, m.en + 1, Append(acc, m))

EngView(prog) == [prog EXCEPT !.sem = "eng", !.nullable = EngFirstAt(prog, EngTree(prog), <<>>, 1) # <<>>]

(* ---- is_match -------------------------------------------------------------------- *)
OpIsMatch(prog, s) == [k |-> "ok", v |-> IF prog.sem = "eng" THEN EngFirstFrom(prog, EngTree(prog), s, 1) # <<>>
                                         ELSE IsMatch(prog.ast, prog.ng, s, prog.F)]
Matches(prog, s) == IF prog.sem = "eng" THEN EngAllFrom(prog, EngTree(prog), s, 1, <<>>)
                    ELSE AllMatches(prog.ast, prog.ng, s, prog.F)

(* ---- replacement strings (C15) ------------------------------------------------------ *)
GroupText(s, m, n, ng) ==                    \* nothing for a group that is unset or does not exist
  IF n = 0 THEN SubSeq(s, m.st, m.en - 1)
  ELSE IF n > ng \/ m.caps[n] = Unset THEN <<>> ELSE SubSeq(s, m.caps[n][1], m.caps[n][2] - 1)
RECURSIVE ReplDigits(_, _, _, _)
ReplDigits(repl, j, n, ng) ==                \* longest run of digits forming a number <= ng (only when ng > 9)
  IF j <= Len(repl) /\ IsDig(repl[j]) /\ n * 10 + (repl[j] - 48) <= ng
  THEN ReplDigits(repl, j + 1, n * 10 + (repl[j] - 48), ng) ELSE <<n, j>>
RECURSIVE Expand(_, _, _, _, _, _)
Expand(repl, i, acc, s, m, ng) ==            \* <<"ok", text>> | <<"err">>
  IF i > Len(repl) THEN <<"ok", acc>>
  ELSE IF repl[i] = 92 THEN
         IF i < Len(repl) /\ repl[i+1] \in {92, 36} THEN Expand(repl, i + 2, Append(acc, repl[i+1]), s, m, ng)
         ELSE <<"err">>
  ELSE IF repl[i] = 36 THEN
         IF i < Len(repl) /\ IsDig(repl[i+1]) THEN
           LET d == IF ng > 9 THEN ReplDigits(repl, i + 2, repl[i+1] - 48, ng) ELSE <<repl[i+1] - 48, i + 2>>
           IN Expand(repl, d[2], acc \o GroupText(s, m, d[1], ng), s, m, ng)
         ELSE <<"err">>
  ELSE Expand(repl, i + 1, Append(acc, repl[i]), s, m, ng)
ReplValid(repl) == Expand(repl, 1, <<>>, <<>>, [st |-> 1, en |-> 1, caps |-> <<>>], 0)[1] = "ok"

RECURSIVE Splice(_, _, _, _, _, _)
Splice(s, ms, texts, k, pos, acc) ==         \* copy the text outside matches, substitute texts[k] for match k
  IF k > Len(ms) THEN acc \o SubSeq(s, pos, Len(s))
  ELSE Splice(s, ms, texts, k + 1, ms[k].en, acc \o SubSeq(s, pos, ms[k].st - 1) \o texts[k])

(* OpReplace -> result record, or [k |-> "either"] when both Ok(s) and InvalidReplacementString are acceptable *)
OpReplace(prog, s, repl) ==
  IF prog.nullable THEN [k |-> "err", e |-> "MatchesEmptyString"]
  ELSE LET ms == Matches(prog, s) IN
       IF ms = <<>> THEN IF prog.lit \/ ReplValid(repl) THEN [k |-> "ok", v |-> s] ELSE [k |-> "either", v |-> s]
       ELSE IF prog.lit THEN [k |-> "ok", v |-> Splice(s, ms, [j \in 1..Len(ms) |-> repl], 1, 1, <<>>)]
       ELSE LET ex == [j \in 1..Len(ms) |-> Expand(repl, 1, <<>>, s, ms[j], prog.ng)] IN
            IF \E j \in 1..Len(ms) : ex[j][1] = "err" THEN [k |-> "err", e |-> "InvalidReplacementString"]
            ELSE [k |-> "ok", v |-> Splice(s, ms, [j \in 1..Len(ms) |-> ex[j][2]], 1, 1, <<>>)]

(* ---- tokenize (C04, C06, C16) -- iterator record [cur, done] ---------------------------- *)
FirstM(prog, s, from) == IF prog.sem = "eng" THEN EngFirstFrom(prog, EngTree(prog), s, from)
                         ELSE FirstFrom(prog.ast, prog.ng, s, from, prog.F)
TokOpen(prog, s) ==
  IF s = <<>> THEN [k |-> "ok", it |-> [cur |-> 1, done |-> TRUE]]          \* no tokens at all, whatever the regex
  ELSE IF prog.nullable THEN [k |-> "err", e |-> "MatchesEmptyString"]
  ELSE [k |-> "ok", it |-> [cur |-> 1, done |-> FALSE]]
TokStep(prog, s, it) ==                      \* [res, it]
  IF it.done THEN [res |-> [k |-> "none"], it |-> it]
  ELSE LET m == FirstM(prog, s, it.cur) IN
       IF m = <<>> THEN [res |-> [k |-> "some", v |-> SubSeq(s, it.cur, Len(s))], it |-> [it EXCEPT !.done = TRUE]]
       ELSE [res |-> [k |-> "some", v |-> SubSeq(s, it.cur, m.st - 1)],
             it |-> [it EXCEPT !.cur = IF m.en > m.st THEN m.en ELSE m.en + 1,
                               !.done = (m.en = m.st /\ m.en > Len(s))]]

(* ---- analyze tree (C03) ------------------------------------------------------------------ *)
SetG(caps) == {g \in DOMAIN caps : caps[g] # Unset}
RECURSIVE Anc(_, _, _)
Anc(par, caps, g) == LET q == par[g] IN IF q = 0 THEN 0 ELSE IF caps[q] # Unset THEN q ELSE Anc(par, caps, q)
Less(caps, a, b) == \/ caps[a][1] < caps[b][1]
                    \/ caps[a][1] = caps[b][1] /\ caps[a][2] < caps[b][2]
                    \/ caps[a][1] = caps[b][1] /\ caps[a][2] = caps[b][2] /\ a < b
Kids(par, caps, n) == SortSeq(SetToSeq({g \in SetG(caps) : Anc(par, caps, g) = n}), LAMBDA a, b : Less(caps, a, b))
Box(par, caps, span, g) == LET q == Anc(par, caps, g) IN IF q = 0 THEN span ELSE caps[q]
WellNested(par, caps, span) ==
  /\ \A g \in SetG(caps) : LET bx == Box(par, caps, span, g) IN bx[1] <= caps[g][1] /\ caps[g][2] <= bx[2]
  /\ \A g, h \in SetG(caps) : (g # h /\ Anc(par, caps, g) = Anc(par, caps, h) /\ Less(caps, g, h))
                              => caps[g][2] <= caps[h][1]                         \* siblings do not overlap
RECURSIVE Build(_, _, _, _, _, _, _)
Build(s, par, caps, kids, k, pos, hi) ==     \* children of one node, left to right
  IF k > Len(kids) THEN IF pos < hi THEN << [s |-> SubSeq(s, pos, hi - 1)] >> ELSE <<>>
  ELSE LET g == kids[k]  a == caps[g][1]  b == caps[g][2]
           lead == IF pos < a THEN << [s |-> SubSeq(s, pos, a - 1)] >> ELSE <<>>
           node == [g |-> g, v |-> Build(s, par, caps, Kids(par, caps, g), 1, a, b)]
       IN lead \o <<node>> \o Build(s, par, caps, kids, k + 1, b, hi)
Tree(s, par, caps, span) == Build(s, par, caps, Kids(par, caps, 0), 1, span[1], span[2])
TreeDefinite(prog, m) == prog.ng = 0 \/ WellNested(prog.par, m.caps, <<m.st, m.en>>)
MatchTree(prog, s, m) ==                      \* (when the nesting is not definite only the text of the match is)
  IF prog.ng = 0 \/ ~TreeDefinite(prog, m) THEN << [s |-> SubSeq(s, m.st, m.en - 1)] >>
  ELSE Tree(s, prog.par, m.caps, <<m.st, m.en>>)

(* ---- analyze (C04, C06, C16) -- iterator record [cur, pend, done] --------------------------- *)
AnaOpen(prog, s) ==
  IF prog.nullable THEN [k |-> "err", e |-> "MatchesEmptyString"]
  ELSE [k |-> "ok", it |-> [cur |-> 1, pend |-> <<>>, done |-> FALSE]]
MEntry(prog, s, m) == [m |-> MatchTree(prog, s, m)]
NEntry(text) == [n |-> text]
AnaStep(prog, s, it) ==                      \* [res, it, m] ; m = the match an emitted Match entry belongs to (or <<>>)
  IF it.done THEN [res |-> [k |-> "none"], it |-> it, m |-> <<>>]
  ELSE IF it.pend # <<>> THEN
       [res |-> [k |-> "some", v |-> MEntry(prog, s, it.pend)], m |-> it.pend,
        it |-> [it EXCEPT !.cur = it.pend.en, !.pend = <<>>]]
  ELSE LET m == FirstM(prog, s, it.cur) IN
       IF m = <<>> THEN
          IF it.cur <= Len(s) THEN [res |-> [k |-> "some", v |-> NEntry(SubSeq(s, it.cur, Len(s)))], m |-> <<>>,
                                    it |-> [it EXCEPT !.done = TRUE]]
          ELSE [res |-> [k |-> "none"], it |-> [it EXCEPT !.done = TRUE], m |-> <<>>]
       ELSE IF m.st = it.cur THEN [res |-> [k |-> "some", v |-> MEntry(prog, s, m)], m |-> m,
                                   it |-> [it EXCEPT !.cur = m.en]]
       ELSE [res |-> [k |-> "some", v |-> NEntry(SubSeq(s, it.cur, m.st - 1))], m |-> <<>>,
             it |-> [it EXCEPT !.pend = m]]

(* ---- draining (what a caller that exhausts the iterator sees) -------------------------------- *)
RECURSIVE TokDrain(_, _, _, _, _), AnaDrain(_, _, _, _, _)
TokDrain(prog, s, it, fuel, acc) ==
  IF fuel = 0 THEN acc
  ELSE LET st == TokStep(prog, s, it) IN
       IF st.res.k = "none" THEN acc ELSE TokDrain(prog, s, st.it, fuel - 1, Append(acc, st.res.v))
AnaDrain(prog, s, it, fuel, acc) ==
  IF fuel = 0 THEN acc
  ELSE LET st == AnaStep(prog, s, it) IN
       IF st.res.k = "none" THEN acc ELSE AnaDrain(prog, s, st.it, fuel - 1, Append(acc, st.res.v))
OpTokens(prog, s) == LET o == TokOpen(prog, s) IN
  IF o.k = "err" THEN o ELSE [k |-> "ok", v |-> TokDrain(prog, s, o.it, Len(s) + 2, <<>>)]
OpAnalyze(prog, s) == LET o == AnaOpen(prog, s) IN
  IF o.k = "err" THEN o ELSE [k |-> "ok", v |-> AnaDrain(prog, s, o.it, 2 * Len(s) + 2, <<>>)]
=============================================================================
