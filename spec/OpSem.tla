------------------------------- MODULE OpSem -------------------------------
(* What an OPERATOR TREE computes: the engine's `matches_iter(op, position)`    *)
(* as the list of <<end, caps>> items the iterator yields, in order, written     *)
(* per operator kind the way the code computes it (op_*.rs):                     *)
(*   sequence       nested iteration, left to right                              *)
(*   choice         the alternatives' items one after the other                  *)
(*   capture        the child's items, group n set on each                       *)
(*   repeat         the general backtracking repeat (greedy: longest first);     *)
(*                  the groups inside it are cleared when it is entered          *)
(*   greedyfixed    count how often the child matches in a row (first item of    *)
(*                  the child only, stride = its fixed length, at most max),     *)
(*                  then yield the end positions from the longest down to min    *)
(*   reluctantfixed min matches in a row, then one more per item requested       *)
(*   unambiguous    as many matches as possible (at most max), ONE item, never   *)
(*                  backtracked into                                             *)
(* The trees come from two places: Engine!Program (the model's lowering; class   *)
(* nodes carry their AST in .node) and the verif_facts hook (the tree the code    *)
(* actually built; class nodes carry their code-point set in .set).              *)
(* Theorem T21 (MCGen): for every enumerated pattern, every input and start,      *)
(*   First(OpOrd(Program(ast))) = FirstAt(ast)                                    *)
(* - every fast path and rewrite of the compiler, under the side condition the    *)
(* model attaches to it, is a pure optimisation.  FactsTrace.tla evaluates the    *)
(* same OpOrd on the tree the CODE built: translation validation of each          *)
(* compilation the recorder observes.                                            *)
EXTENDS Search

ClassHas(o, c, F) == IF "set" \in DOMAIN o THEN IMember(o.set, c)
                     ELSE IF o.node.k = "dot" THEN DotOk(c, F) ELSE InClass(o.node, c, F)

RECURSIVE GroupsIn(_)
GroupsIn(o) ==
  CASE o.k = "capture" -> {o.n} \cup GroupsIn(o.r)
    [] o.k \in {"choice", "sequence"} -> UNION {GroupsIn(o.xs[j]) : j \in 1..Len(o.xs)}
    [] IsRep(o) -> GroupsIn(o.r)
    [] OTHER -> {}

Max2(a, b) == IF a >= b THEN a ELSE b
Min2(a, b) == IF a <= b THEN a ELSE b

RECURSIVE OpOrd(_, _, _, _, _), OpSeq(_, _, _, _, _, _), OpRep(_, _, _, _, _, _), OpCount(_, _, _, _, _, _, _, _)
(* how often o.r matches in a row from p (first item only), at most lim times; stride: fixed step or 0 = the item's end *)
(* returns <<count, position after, caps after>>                                                                      *)
OpCount(o, s, p, caps, F, cnt, lim, stride) ==
  IF (lim # -1 /\ cnt >= lim) \/ p > Len(s) + 1 THEN <<cnt, p, caps>>
  ELSE LET it == OpOrd(o.r, s, p, caps, F) IN
       IF it = <<>> THEN <<cnt, p, caps>>
       ELSE LET nxt == IF stride > 0 THEN p + stride ELSE it[1][1] IN
            IF nxt = p THEN <<(IF lim = -1 THEN cnt + 1 ELSE lim), p, it[1][2]>>      \* (a zero-length child: not built by the compiler)
            ELSE OpCount(o, s, nxt, it[1][2], F, cnt + 1, lim, stride)

OpOrd(o, s, i, caps, F) ==
  CASE o.k = "atom" -> IF i + Len(o.cs) - 1 <= Len(s) /\ \A q \in 1..Len(o.cs) : EqC(s[i + q - 1], o.cs[q], F)
                       THEN << <<i + Len(o.cs), caps>> >> ELSE <<>>
    [] o.k = "class" -> IF i <= Len(s) /\ ClassHas(o, s[i], F) THEN << <<i + 1, caps>> >> ELSE <<>>
    [] o.k = "bol" -> IF Bol(s, i, F) THEN << <<i, caps>> >> ELSE <<>>
    [] o.k = "eol" -> IF Eol(s, i, F) THEN << <<i, caps>> >> ELSE <<>>
    [] o.k \in {"nothing", "end"} -> << <<i, caps>> >>
    [] o.k = "bref" -> IF caps[o.n] = Unset THEN << <<i, caps>> >>
                       ELSE IF SubEq(s, caps[o.n][1], caps[o.n][2], i, F)
                            THEN << <<i + caps[o.n][2] - caps[o.n][1], caps>> >> ELSE <<>>
    [] o.k = "capture" -> LET a == OpOrd(o.r, s, i, caps, F) IN
                          [x \in 1..Len(a) |-> <<a[x][1], [a[x][2] EXCEPT ![o.n] = <<i, a[x][1]>>]>>]
    [] o.k = "choice" -> Flat([x \in 1..Len(o.xs) |-> OpOrd(o.xs[x], s, i, caps, F)])
    [] o.k = "sequence" -> OpSeq(o.xs, 1, s, i, caps, F)
    [] o.k = "repeat" ->
         LET G == GroupsIn(o.r) IN
         OpRep(o, s, i, [g \in DOMAIN caps |-> IF g \in G THEN Unset ELSE caps[g]], 0, F)
    [] o.k = "greedyfixed" ->
         LET len == MLen(o.r)
             c == OpCount(o, s, i, caps, F, 0, o.max, len)
         IN IF c[1] < o.min THEN <<>>
            ELSE [j \in 1..(c[1] - o.min + 1) |-> <<i + (c[1] - j + 1) * len, c[3]>>]
    [] o.k = "reluctantfixed" ->
         LET RECURSIVE Rest(_, _, _)
             Rest(cnt, p, cp) ==                        \* one item per further match of the child
               IF o.max # -1 /\ cnt >= o.max THEN <<>>
               ELSE LET it == OpOrd(o.r, s, p, cp, F) IN
                    IF it = <<>> \/ it[1][1] = p THEN <<>> ELSE << it[1] >> \o Rest(cnt + 1, it[1][1], it[1][2])
             c == OpCount(o, s, i, caps, F, 0, o.min, 0)
         IN IF c[1] < o.min THEN <<>> ELSE << <<c[2], c[3]>> >> \o Rest(o.min, c[2], c[3])
    [] o.k = "unambiguous" ->
         LET c == OpCount(o, s, i, caps, F, 0, o.max, 0) IN
         IF c[1] < o.min THEN <<>> ELSE << <<c[2], c[3]>> >>
OpSeq(xs, x, s, i, caps, F) ==
  IF x > Len(xs) THEN << <<i, caps>> >>
  ELSE LET a == OpOrd(xs[x], s, i, caps, F)
       IN Flat([y \in 1..Len(a) |-> OpSeq(xs, x + 1, s, a[y][1], a[y][2], F)])
OpRep(o, s, i, caps, k, F) ==                           \* as Semantics!OrdRep, over an operator
  LET body == IF o.max = -1 \/ k < o.max THEN OpOrd(o.r, s, i, caps, F) ELSE <<>>
      more == Flat([y \in 1..Len(body) |->
                 IF body[y][1] = i /\ k >= o.min THEN <<>>
                 ELSE OpRep(o, s, body[y][1], body[y][2], k + 1, F)])
      stop == IF k >= o.min THEN << <<i, caps>> >> ELSE <<>>
  IN IF o.greedy THEN more \o stop ELSE stop \o more

OpFirstAt(o, ng, s, i, F) == LET a == OpOrd(o, s, i, NoCaps(ng), F) IN IF a = <<>> THEN <<>> ELSE a[1]

(* ---- the open choice of Engine!Opt ("rep?"): when may a repeat of an atom / class become "unambiguous"? ---------- *)
(* ReCompiler::no_ambiguity, with the initial character classes read semantically over a universe U of code points   *)
RECURSIVE Starts(_, _, _)
Starts(o, c, F) ==                                      \* can a match of o begin with character c?
  CASE o.k = "atom" -> o.cs # <<>> /\ EqC(c, o.cs[1], F)
    [] o.k = "class" -> ClassHas(o, c, F)
    [] o.k = "capture" -> Starts(o.r, c, F)
    [] o.k = "choice" -> \E j \in 1..Len(o.xs) : Starts(o.xs[j], c, F)
    [] o.k = "sequence" -> \E j \in 1..Len(o.xs) : Starts(o.xs[j], c, F) /\ \A q \in 1..(j - 1) : Zls(o.xs[q]) # ZNever
    [] IsRep(o) -> Starts(o.r, c, F)
    [] OTHER -> FALSE
NoAmbig(op0, op1, F, reluctant, U) ==
  IF op1.k = "end" THEN ~reluctant
  ELSE IF op1.k = "bol" THEN FALSE
  ELSE IF op1.k = "eol" THEN ~Starts(op0, 10, F)
  ELSE IF IsRep(op1) /\ op1.min = 0 THEN FALSE
  ELSE IF Zls(op1) # ZNever THEN FALSE
  ELSE \A c \in U : ~(Starts(op0, c, F) /\ Starts(op1, c, F))

(* resolve every "rep?" of a model tree: unambiguous exactly where NoAmbig allows it (the next operand is the one     *)
(* BEFORE optimisation in the code; its Starts / Zls do not depend on that)                                          *)
RECURSIVE Resolve(_, _, _)
Resolve(o, F, U) ==
  CASE o.k = "capture" -> [o EXCEPT !.r = Resolve(o.r, F, U)]
    [] o.k = "choice" -> [o EXCEPT !.xs = [j \in 1..Len(o.xs) |-> Resolve(o.xs[j], F, U)]]
    [] o.k = "sequence" ->
         [o EXCEPT !.xs = [j \in 1..Len(o.xs) |->
            LET e == o.xs[j] IN
            IF e.k = "rep?" THEN
                 IF NoAmbig(e.r, o.xs[j + 1], F, ~e.greedy, U) THEN [e EXCEPT !.k = "unambiguous", !.greedy = TRUE]
                 ELSE [e EXCEPT !.k = IF MLen(e.r) = -1 THEN "repeat" ELSE IF e.greedy THEN "greedyfixed" ELSE "reluctantfixed"]
            ELSE Resolve(e, F, U)]]
    [] IsRep(o) -> [o EXCEPT !.r = Resolve(o.r, F, U)]
    [] OTHER -> o
=============================================================================
