------------------------------- MODULE MCApi -------------------------------
(* C18 on the model: the Api state machine over a small pool of sources,      *)
(* inputs, register and iterator ids.  Exhaustively (with the history hidden  *)
(* by the VIEW) TLC checks the inductive invariants T5/T6/T14 and the         *)
(* progress property; in simulation mode every random history of length       *)
(* Depth is printed with the spec's expected result of every call, to be       *)
(* replayed on shared objects sequentially and from several threads.           *)
EXTENDS Api

CONSTANTS Depth, RegIds, ItIds, PoolName

Str(s) ==    \* a few ASCII letters -> code points (pool definitions only)
  [k \in 1..Len(s) |-> CASE SubSeq(s, k, k) = "a" -> 97 [] SubSeq(s, k, k) = "b" -> 98 [] SubSeq(s, k, k) = "c" -> 99
                         [] SubSeq(s, k, k) = "x" -> 120 [] OTHER -> 63]
Pool ==
  CASE PoolName = "small" ->
         << <<<<40,97,41,124,98>>, <<>>, TRUE>>,                              \* (a)|b
            <<<<40,63,58,97,63,124,98,41,42,99>>, <<>>, TRUE>> >>             \* (?:a?|b)*c
    [] PoolName = "zl" ->                                                      \* one object, stepped iterators interleaved with other calls
         << <<<<40,97,98,124,99,41,123,48,44,50,125,100>>, <<>>, TRUE>> >>     \* (ab|c){0,2}d  a min-0 repeat reached at the same position twice
    [] PoolName = "wide" ->
         << <<<<40,97,41,124,98>>, <<>>, TRUE>>,                              \* (a)|b          capture arrays
            <<<<40,63,58,97,63,124,98,41,42,99>>, <<>>, TRUE>>,               \* (?:a?|b)*c     zero-length memo
            <<<<40,97,43,41,92,49>>, <<105>>, TRUE>>,                         \* (a+)\1 /i      back-reference arrays
            <<<<94,97>>, <<109>>, TRUE>>,                                     \* ^a /m          anchored search
            <<<<92,112,123,73,115,71,114,101,101,107,125,43>>, <<>>, TRUE>>,  \* \p{IsGreek}+   process-wide block table
            <<<<97,40,63,58,97,98,124,99,41,42,98>>, <<>>, TRUE>>,            \* a(?:ab|c)*b    a min-0 repeat of a non-nullable body
            <<<<1096>>, <<105>>, TRUE>>,                                      \* U+0448 /i     case folding of a BMP letter after a
                                                                              \*               supplementary one with the same low 16 bits
            <<<<94,97>>, <<>>, TRUE>>,                                        \* ^a            the same text under both dialects:
            <<<<94,97>>, <<>>, FALSE>>,                                       \* ^a (xsd)        an anchor here, a literal ^ there
            <<<<97,42>>, <<>>, FALSE>>,                                       \* a* (xsd)       matches the empty string
            <<<<40>>, <<>>, TRUE>> >>                                         \* (              does not compile
Inputs == IF PoolName = "zl" THEN << <<100,45,100,45,100>>, <<120,120,100>>, <<99,100,100>> >> ELSE
          << <<97,98>>, <<97,97,98,99>>, <<945,97,65,10,97>>, <<>>, <<98,94,97>>, <<66600,1064>> >>
Repls == << <<91,36,49,93>>, <<36>> >>                                        \* [$1] and an invalid one

VARIABLE hist
mvars == <<regs, iters, last, hist>>
View == <<regs, iters>>

Rec(call) == hist' = Append(hist, call)
MInit == AInit /\ hist = <<>>
MNext ==
  /\ Len(hist) < Depth
  /\ \/ \E r \in RegIds, k \in 1..Len(Pool) :
          /\ Compile(Pool[k][1], Pool[k][2], Pool[k][3]).k # "uns"
          /\ ACompile(r, Pool[k][1], Pool[k][2], Pool[k][3])
          /\ Rec([op |-> "compile", r |-> r, pat |-> Pool[k][1], flags |-> Pool[k][2], x |-> Pool[k][3], exp |-> last'.res])
     \/ \E r \in DOMAIN regs, k \in 1..Len(Inputs) :
          /\ ~InputUnspec(regs[r].prog, Inputs[k])
          /\ AIsMatch(r, Inputs[k]) /\ Rec([op |-> "is_match", r |-> r, s |-> Inputs[k], exp |-> last'.res])
     \/ \E r \in DOMAIN regs, k \in 1..Len(Inputs), j \in 1..Len(Repls) :
          /\ ~SpanUnspec(regs[r].prog, Inputs[k]) \/ regs[r].prog.nullable
          /\ AReplace(r, Inputs[k], Repls[j])
          /\ Rec([op |-> "replace", r |-> r, s |-> Inputs[k], repl |-> Repls[j], exp |-> last'.res])
     \/ \E r \in DOMAIN regs, k \in 1..Len(Inputs), it \in ItIds \ DOMAIN iters, kind \in {"tok", "ana"} :
          /\ ~SpanUnspec(regs[r].prog, Inputs[k]) \/ regs[r].prog.nullable
          /\ AOpen(kind, r, Inputs[k], it)
          /\ Rec([op |-> IF kind = "tok" THEN "tokenize" ELSE "analyze", r |-> r, it |-> it, s |-> Inputs[k], exp |-> last'.res])
     \/ \E it \in DOMAIN iters :
          /\ ANext(it) /\ Rec([op |-> "next", it |-> it, exp |-> last'.res])
     \/ \E it \in DOMAIN iters : ADropIter(it) /\ Rec([op |-> "drop_it", it |-> it])
     \/ \E r \in DOMAIN regs : ADropReg(r) /\ Rec([op |-> "drop_reg", r |-> r])
MSpec == MInit /\ [][MNext]_mvars

EmitHist == Len(hist) = Depth => PrintT(<<"H", ToJson([hist |-> hist])>>)
(* liveness (T6): every iterator that keeps being stepped eventually reports None - checked under weak fairness of *)
(* the Next actions on the unconstrained machine                                                                 *)
Fair == \A it \in ItIds : WF_mvars(it \in DOMAIN iters /\ ANext(it) /\ hist' = hist)
=============================================================================
