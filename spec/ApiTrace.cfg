INIT TInit
NEXT TNext
CHECK_DEADLOCK FALSE
POSTCONDITION Accepted
INVARIANTS T5_Inv T6_Inv T14_Pure
