------------------------------- MODULE Engine -------------------------------
(* Implementation-shaped layer: the operator tree the compiler must build for  *)
(* an AST (ReCompiler::parse_* + Operation::optimize), as records shaped like   *)
(* the JSON the verif_facts hook prints:                                        *)
(*   [k |-> "bol" | "eol" | "nothing" | "end"]   [k |-> "atom", cs]            *)
(*   [k |-> "class"]  (its set is the subject of C09, not compared here)        *)
(*   [k |-> "bref", n]   [k |-> "capture", n, r]   [k |-> "choice", xs]         *)
(*   [k |-> "sequence", xs]                                                     *)
(*   [k |-> "repeat" | "greedyfixed" | "reluctantfixed" | "unambiguous", min, max, greedy, r] *)
(* Lowering decisions modelled (each is a place where a wrong decision changes  *)
(* behaviour): runs of literals merge into one atom except a literal that       *)
(* carries a quantifier; quantified anchors; quantified terms that can match    *)
(* the empty string ({n,m} keeps its upper bound and whether it must be         *)
(* entered); r{0}; r{1,1}; fixed-length fast paths only for bodies without      *)
(* groups; zero-length bodies; flattening of sequences; the optimizer's         *)
(* (a?)* -> (a?)+ for greedy repeats and the non-backtracking repeat.           *)
(* One decision is left open on purpose: whether a repeat of an atom/class that *)
(* is followed by another term becomes "unambiguous" depends on a disjointness  *)
(* test over ICU case closures; TreeOk() accepts either kind there (the         *)
(* soundness of that choice is what C08's differential decides).                *)
EXTENDS Syntax

ZNever == 1024  ZAny == 7  ZStart == 1  ZEnd == 2

RECURSIVE MLen(_), Zls(_), HasCap(_)
MLen(o) ==                                    \* get_match_length: -1 = not fixed
  CASE o.k \in {"bol", "eol", "nothing", "end"} -> 0
    [] o.k = "atom" -> Len(o.cs)
    [] o.k = "class" -> 1
    [] o.k = "bref" -> -1
    [] o.k = "capture" -> MLen(o.r)
    [] o.k = "choice" -> LET ls == {MLen(o.xs[j]) : j \in 1..Len(o.xs)} IN
                         IF Cardinality(ls) = 1 THEN CHOOSE x \in ls : TRUE ELSE -1
    [] o.k = "sequence" -> IF \E j \in 1..Len(o.xs) : MLen(o.xs[j]) = -1 THEN -1
                           ELSE FoldLeft(LAMBDA a, x : a + MLen(x), 0, o.xs)
    [] o.k \in {"repeat", "unambiguous", "rep?"} -> IF o.min = o.max /\ MLen(o.r) # -1 THEN o.min * MLen(o.r) ELSE -1
    [] o.k \in {"greedyfixed", "reluctantfixed"} -> IF o.min = o.max THEN o.min * MLen(o.r) ELSE -1
Zls(o) ==                                     \* matches_empty_string
  CASE o.k = "bol" -> ZStart [] o.k = "eol" -> ZEnd [] o.k \in {"nothing", "end"} -> ZAny
    [] o.k = "atom" -> IF o.cs = <<>> THEN ZAny ELSE ZNever
    [] o.k = "class" -> ZNever
    [] o.k = "bref" -> 0
    [] o.k = "capture" -> Zls(o.r)
    [] o.k = "choice" -> LET bits == {Zls(o.xs[j]) : j \in 1..Len(o.xs)} \ {ZNever} IN
                         (IF \E b \in bits : b % 2 = 1 THEN 1 ELSE 0) + (IF \E b \in bits : (b \div 2) % 2 = 1 THEN 2 ELSE 0)
                         + (IF \E b \in bits : (b \div 4) % 2 = 1 THEN 4 ELSE 0)
    [] o.k = "sequence" ->
         LET z == [j \in 1..Len(o.xs) |-> Zls(o.xs[j])]
             firstNonAny == IF \E j \in 1..Len(z) : z[j] # ZAny THEN CHOOSE j \in 1..Len(z) : z[j] # ZAny /\ \A i \in 1..(j-1) : z[i] = ZAny ELSE 0
         IN IF firstNonAny = 0 THEN ZAny
            ELSE IF z[firstNonAny] = ZNever THEN ZNever
            ELSE IF \A j \in 1..Len(z) : z[j] % 2 = 1 THEN ZStart
            ELSE IF \A j \in 1..Len(z) : (z[j] \div 2) % 2 = 1 THEN ZEnd
            ELSE 0
    [] o.k \in {"repeat", "greedyfixed", "reluctantfixed", "unambiguous", "rep?"} -> IF o.min = 0 THEN ZAny ELSE Zls(o.r)
HasCap(o) ==
  CASE o.k = "capture" -> TRUE
    [] o.k \in {"choice", "sequence"} -> \E j \in 1..Len(o.xs) : HasCap(o.xs[j])
    [] o.k \in {"repeat", "greedyfixed", "reluctantfixed", "unambiguous", "rep?"} -> HasCap(o.r)
    [] OTHER -> FALSE

Nothing == [k |-> "nothing"]
MkSeqOp(a, b) ==                               \* ReCompiler::make_sequence
  [k |-> "sequence", xs |-> (IF a.k = "sequence" THEN a.xs ELSE <<a>>) \o (IF b.k = "sequence" THEN b.xs ELSE <<b>>)]

(* piece(): operand already lowered; quantifier [min, max (-1 = unbounded), lazy] *)
QuantOp(ret, q) ==
  LET isAnchor == ret.k \in {"bol", "eol"}
      anyw == Zls(ret) = ZAny
      \* what is left of the quantifier after the two simplifications
      qq == IF isAnchor THEN (IF q.min = 0 THEN [kind |-> "nothing"] ELSE [kind |-> "none"])
            ELSE IF anyw THEN
                 (IF q.q = "s" /\ q.min = 0 /\ q.max = 1 THEN [kind |-> "none"]
                  ELSE IF q.q = "s" THEN [kind |-> "q", min |-> 0, max |-> -1]
                  ELSE [kind |-> "q", min |-> (IF q.min > 1 THEN 1 ELSE q.min), max |-> q.max])
            ELSE [kind |-> "q", min |-> q.min, max |-> q.max]
  IN IF qq.kind = "nothing" THEN Nothing
     ELSE IF qq.kind = "none" THEN ret
     ELSE IF qq.max = 0 THEN Nothing
     ELSE IF qq.min = 1 /\ qq.max = 1 THEN ret
     ELSE LET ml == MLen(ret)
              fixed == IF HasCap(ret) THEN (IF ml = 0 THEN 0 ELSE -1) ELSE ml
              mk(kind) == [k |-> kind, min |-> qq.min, max |-> qq.max, greedy |-> ~q.lazy, r |-> ret]
          IN IF fixed > 0 THEN mk(IF q.lazy THEN "reluctantfixed" ELSE "greedyfixed")
             ELSE IF fixed = 0 THEN (IF qq.min = 0 THEN Nothing ELSE ret)
             ELSE mk("repeat")

RECURSIVE Low(_), LowSeq(_, _, _, _)
(* lowering before optimisation; a sequence merges runs of bare literals into atoms *)
LowSeq(xs, j, run, acc) ==                     \* run = pending literal characters
  LET flush == IF run = <<>> THEN acc ELSE Append(acc, [k |-> "atom", cs |-> run]) IN
  IF j > Len(xs) THEN flush
  ELSE IF xs[j].k = "chr" THEN LowSeq(xs, j + 1, Append(run, xs[j].c), acc)
  ELSE LowSeq(xs, j + 1, <<>>, Append(flush, Low(xs[j])))
Low(r) ==
  CASE r.k = "chr" -> [k |-> "atom", cs |-> <<r.c>>]
    [] r.k \in {"dot", "cls"} -> [k |-> "class", node |-> r]            \* (node: the AST behind it, for Search.tla)
    [] r.k = "bol" -> [k |-> "bol"]
    [] r.k = "eol" -> [k |-> "eol"]
    [] r.k = "bref" -> [k |-> "bref", n |-> r.n]
    [] r.k = "grp" -> [k |-> "capture", n |-> r.n, r |-> Low(r.r)]
    [] r.k = "ncg" -> Low(r.r)
    [] r.k = "rep" -> QuantOp(Low(r.r), r)
    [] r.k = "alt" -> [k |-> "choice", xs |-> [j \in 1..Len(r.xs) |-> Low(r.xs[j])]]
    [] r.k = "seq" ->
         IF r.xs = <<>> THEN Nothing
         ELSE LET parts == LowSeq(r.xs, 1, <<>>, <<>>) IN
              IF Len(parts) = 1 THEN parts[1]
              ELSE FoldLeft(LAMBDA a, x : MkSeqOp(a, x), parts[1], SubSeq(parts, 2, Len(parts)))

RECURSIVE Opt(_)
Opt(o) ==                                      \* Operation::optimize, with the open choice marked "rep?"
  CASE o.k = "capture" -> [o EXCEPT !.r = Opt(o.r)]
    [] o.k = "choice" -> [o EXCEPT !.xs = [j \in 1..Len(o.xs) |-> Opt(o.xs[j])]]
    [] o.k = "repeat" -> LET c == Opt(o.r) IN
                         [o EXCEPT !.r = c, !.min = IF o.min = 0 /\ o.greedy /\ Zls(c) = ZAny THEN 1 ELSE o.min]
    [] o.k = "greedyfixed" -> IF o.max = 0 THEN Nothing ELSE IF MLen(o.r) = 0 THEN o.r ELSE [o EXCEPT !.r = Opt(o.r)]
    [] o.k \in {"reluctantfixed", "unambiguous"} -> [o EXCEPT !.r = Opt(o.r)]
    [] o.k = "sequence" ->
         IF Len(o.xs) = 0 THEN Nothing
         ELSE IF Len(o.xs) = 1 THEN o.xs[1]
         ELSE [o EXCEPT !.xs = [j \in 1..Len(o.xs) |->
                 LET e == Opt(o.xs[j]) IN
                 IF j < Len(o.xs) /\ e.k \in {"repeat", "greedyfixed", "reluctantfixed", "unambiguous"} /\ e.r.k \in {"atom", "class"}
                 THEN IF e.min = e.max THEN [e EXCEPT !.k = "unambiguous", !.greedy = TRUE]
                      ELSE [e EXCEPT !.k = "rep?"]                  \* stays as it is, or becomes unambiguous
                 ELSE e]]
    [] OTHER -> o

Program(prog, pat) ==                          \* the whole program, as compile() builds it
  IF prog.lit THEN [k |-> "sequence", xs |-> <<[k |-> "atom", cs |-> pat], [k |-> "end"]>>]
  ELSE Opt(MkSeqOp(Low(prog.ast), [k |-> "end"]))

(* does the tree the code reports agree with the model?  (maxes: the hook prints -1 for unbounded) *)
RECURSIVE TreeOk(_, _)
TreeOk(m, c) ==
  IF m.k = "rep?" THEN
       /\ c.k \in {"repeat", "greedyfixed", "reluctantfixed", "unambiguous"}
       /\ c.min = m.min /\ c.max = m.max /\ TreeOk(m.r, c.r)
       /\ (c.k = "unambiguous" \/ (c.greedy = m.greedy /\ c.k = (IF MLen(m.r) = -1 THEN "repeat" ELSE IF m.greedy THEN "greedyfixed" ELSE "reluctantfixed")))
  ELSE /\ c.k = m.k
       /\ CASE m.k = "atom" -> c.cs = m.cs
            [] m.k = "bref" -> c.n = m.n
            [] m.k = "capture" -> c.n = m.n /\ TreeOk(m.r, c.r)
            [] m.k \in {"choice", "sequence"} -> Len(c.xs) = Len(m.xs) /\ \A j \in 1..Len(m.xs) : TreeOk(m.xs[j], c.xs[j])
            [] m.k \in {"repeat", "greedyfixed", "reluctantfixed", "unambiguous"} ->
                 c.min = m.min /\ c.max = m.max /\ c.greedy = m.greedy /\ TreeOk(m.r, c.r)
            [] OTHER -> TRUE
=============================================================================
