------------------------------- MODULE MCRepl -------------------------------
(* C15: every replacement string up to MaxRepl over {$, \, 0, 1, 2, 9, x}     *)
(* against patterns with 0, 1, 2, 9, 10 and 12 groups (some participating,    *)
(* some not) on inputs with 0, 1 and 2 matches.  One state per replacement    *)
(* string; the behaviour printed carries, per (pattern, input), the expected  *)
(* result of replace_all with THIS replacement string.                        *)
EXTENDS Beh, Scan

CONSTANTS MaxRepl

VARIABLE rs
RAlpha == {36, 92, 48, 49, 50, 57, 120}
RInit == rs = <<>>
RNext == \E c \in RAlpha : Len(rs) < MaxRepl /\ rs' = Append(rs, c)

(* pattern pool, as source text *)
G(n) == Flat([j \in 1..n |-> IF j = 1 THEN <<40, 97, 41>>                    \* (a)
                             ELSE IF j % 2 = 0 THEN <<40, 98, 41, 63>>        \* (b)?
                             ELSE <<40, 97, 41, 63>>])                        \* (a)?
Pats == { <<97>>, <<40, 97, 41>>, <<40, 97, 41, 40, 98, 41, 63>>, <<40, 97, 124, 40, 98, 41, 41>>,
          G(9), G(10), G(12), <<40, 40, 97, 41, 98, 41>>,
          <<40, 97, 41, 40, 98, 41, 123, 48, 125, 40, 98, 41, 63>> }            \* (a)(b){0}(b)? : a group that is compiled away still counts
RInputs == { <<>>, <<120>>, <<97>>, <<97, 98>>, <<120, 97, 98, 120, 97>>, <<98, 120, 98>>, <<97, 98, 97>> }

ReplBeh(p) ==
  LET c == Compile(p, <<>>, TRUE)  ins == SetToSeq(RInputs) IN
  [pat |-> p, flags |-> <<>>, x |-> TRUE, comp |-> "ok", ng |-> c.prog.ng, nullable |-> c.prog.nullable,
   strict |-> c.prog.strict, repl2 |-> rs,
   cases |-> [k \in 1..Len(ins) |->
      LET s == ins[k]  r == OpReplace(c.prog, s, rs) IN
      IF r.k = "either" THEN [s |-> s, m |-> OpIsMatch(c.prog, s).v, def |-> FALSE]
      ELSE [s |-> s, m |-> OpIsMatch(c.prog, s).v, def |-> TRUE, r0 |-> OpReplace(c.prog, s, ReplSpan), rg |-> r,
            tok |-> OpTokens(c.prog, s), ana |-> OpAnalyze(c.prog, s), capdef |-> TRUE, treedef |-> TRUE]]]
EmitRepl == \A p \in Pats : PrintT(<<"B", ToJson(ReplBeh(p))>>)

(* T12 (C15): Expand is total: ok on exactly the valid replacement strings *)
T12_ReplLaw == \A p \in Pats : LET c == Compile(p, <<>>, TRUE) IN
  \A s \in RInputs : LET r == OpReplace(c.prog, s, rs)  any == IsMatch(c.prog.ast, c.prog.ng, s, c.prog.F) IN
     /\ (any /\ ~ReplValid(rs)) => (r.k = "err" /\ r.e = "InvalidReplacementString")
     /\ (any /\ ReplValid(rs)) => r.k = "ok"
     /\ ~any => r.k \in {"ok", "either"} /\ r.v = s
(* T20 for every replacement string: the replace loop (latch, digit loop) refines OpReplace *)
T20_ReplRefines == \A p \in Pats : LET c == Compile(p, <<>>, TRUE) IN \A s \in RInputs : ScanRefines(c.prog, s, rs)
=============================================================================
