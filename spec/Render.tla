------------------------------- MODULE Render -------------------------------
(* AST -> pattern text (sequence of code points), for well-formed ASTs:       *)
(*   atom   ::= chr | dot | cls | bol | eol | bref | grp | ncg                *)
(*   piece  ::= atom | rep(atom)                                              *)
(*   branch ::= piece | seq of >= 2 pieces | seq <<>> (the empty branch)      *)
(*   regexp ::= branch | alt of >= 2 branches                                 *)
(* which is exactly the normal form Parse produces, so that                   *)
(* Parse(Render(a)).ast = a (theorem T1).  Also numbering of groups.          *)
EXTENDS Semantics

Cp(str) ==                                   \* a short ASCII TLA+ string -> code points (metacharacters only)
  CASE str = "(" -> <<40>> [] str = ")" -> <<41>> [] str = "(?:" -> <<40,63,58>> [] str = "|" -> <<124>>
    [] str = "[" -> <<91>> [] str = "]" -> <<93>> [] str = "^" -> <<94>> [] str = "$" -> <<36>>
    [] str = "." -> <<46>> [] str = "\\" -> <<92>> [] str = "-" -> <<45>> [] str = "?" -> <<63>>
    [] str = "*" -> <<42>> [] str = "+" -> <<43>> [] str = "{" -> <<123>> [] str = "}" -> <<125>>
    [] str = "," -> <<44>> [] str = "-[" -> <<45,91>> [] str = "\\p{" -> <<92,112,123>>
    [] str = "\\P{" -> <<92,80,123>> [] str = "Is" -> <<73,115>>

RECURSIVE DigitsOf(_)
DigitsOf(n) == IF n < 10 THEN <<48 + n>> ELSE Append(DigitsOf(n \div 10), 48 + (n % 10))

MetaTop == {46, 92, 63, 42, 43, 123, 125, 40, 41, 124, 91, 93, 94, 36}      \* . \ ? * + { } ( ) | [ ] ^ $
EscChar(c) == CASE c = 10 -> <<92, 110>> [] c = 13 -> <<92, 114>> [] c = 9 -> <<92, 116>>
                [] OTHER -> <<92, c>>
RChrTop(c) == IF c \in MetaTop \cup {9, 10, 13} THEN EscChar(c) ELSE <<c>>
MetaCls == {92, 91, 93, 45, 94}                                              \* \ [ ] - ^
RChrCls(c) == IF c \in MetaCls \cup {9, 10, 13} THEN EscChar(c) ELSE <<c>>
EscLetter(e) == CASE e = "d" -> 100 [] e = "D" -> 68 [] e = "s" -> 115 [] e = "S" -> 83 [] e = "i" -> 105
                  [] e = "I" -> 73 [] e = "c" -> 99 [] e = "C" -> 67 [] e = "w" -> 119 [] e = "W" -> 87
CatCp(name) == [k \in 1..Len(name) |->                                      \* category name (TLA+ string) -> cps
  LET ch == SubSeq(name, k, k) IN
  CASE ch = "L" -> 76 [] ch = "M" -> 77 [] ch = "N" -> 78 [] ch = "P" -> 80 [] ch = "Z" -> 90 [] ch = "S" -> 83
    [] ch = "C" -> 67 [] ch = "u" -> 117 [] ch = "l" -> 108 [] ch = "t" -> 116 [] ch = "m" -> 109
    [] ch = "o" -> 111 [] ch = "n" -> 110 [] ch = "c" -> 99 [] ch = "e" -> 101 [] ch = "d" -> 100
    [] ch = "s" -> 115 [] ch = "i" -> 105 [] ch = "f" -> 102 [] ch = "p" -> 112 [] ch = "k" -> 107]
RItem(it) ==
  CASE it.t = "c" -> RChrCls(it.c)
    [] it.t = "r" -> RChrCls(it.lo) \o Cp("-") \o RChrCls(it.hi)
    [] it.t = "e" -> <<92, EscLetter(it.e)>>
    [] it.t = "p" -> (IF it.neg THEN Cp("\\P{") ELSE Cp("\\p{")) \o CatCp(it.name) \o Cp("}")
    [] it.t = "b" -> (IF it.neg THEN Cp("\\P{") ELSE Cp("\\p{")) \o Cp("Is") \o it.name \o Cp("}")
RECURSIVE RClass(_)
RClass(cls) ==
  IF cls.bare THEN RItem(cls.items[1])                 \* \d, \p{L} ... written without brackets
  ELSE Cp("[") \o (IF cls.neg THEN Cp("^") ELSE <<>>)
       \o Flat([k \in 1..Len(cls.items) |-> RItem(cls.items[k])])
       \o (IF cls.sub = <<>> THEN <<>> ELSE Cp("-") \o RClass(cls.sub[1]))
       \o Cp("]")

RQuant(r) ==
  (IF r.min = 0 /\ r.max = 1 /\ r.q = "s" THEN Cp("?")
   ELSE IF r.min = 0 /\ r.max = -1 /\ r.q = "s" THEN Cp("*")
   ELSE IF r.min = 1 /\ r.max = -1 /\ r.q = "s" THEN Cp("+")
   ELSE IF r.max = -1 THEN Cp("{") \o DigitsOf(r.min) \o Cp(",") \o Cp("}")
   ELSE IF r.max = r.min /\ r.q = "n" THEN Cp("{") \o DigitsOf(r.min) \o Cp("}")
   ELSE Cp("{") \o DigitsOf(r.min) \o Cp(",") \o DigitsOf(r.max) \o Cp("}"))
  \o (IF r.lazy THEN Cp("?") ELSE <<>>)

RECURSIVE Render(_)
Render(r) ==
  CASE r.k = "chr" -> RChrTop(r.c)
    [] r.k = "dot" -> Cp(".")
    [] r.k = "cls" -> RClass(r)
    [] r.k = "bol" -> Cp("^")
    [] r.k = "eol" -> Cp("$")
    [] r.k = "bref" -> <<92>> \o DigitsOf(r.n)
    [] r.k = "grp" -> Cp("(") \o Render(r.r) \o Cp(")")
    [] r.k = "ncg" -> Cp("(?:") \o Render(r.r) \o Cp(")")
    [] r.k = "rep" -> Render(r.r) \o RQuant(r)
    [] r.k = "seq" -> Flat([x \in 1..Len(r.xs) |-> Render(r.xs[x])])
    [] r.k = "alt" -> Flat([x \in 1..Len(r.xs) |-> (IF x > 1 THEN Cp("|") ELSE <<>>) \o Render(r.xs[x])])

(* ---- group numbering by order of opening parentheses, validity of back-references ---- *)
(* st = [ng |-> groups opened so far, closed |-> set of closed group numbers, ok |-> BOOLEAN] *)
RECURSIVE Num(_, _), NumList(_, _, _, _)
Num(r, st) ==                                 \* returns [r |-> renumbered, st |-> st']
  CASE r.k = "grp" ->
         LET n == st.ng + 1
             b == Num(r.r, [st EXCEPT !.ng = n])
         IN [r |-> [r EXCEPT !.n = n, !.r = b.r], st |-> [b.st EXCEPT !.closed = @ \cup {n}]]
    [] r.k \in {"ncg", "rep"} -> LET b == Num(r.r, st) IN [r |-> [r EXCEPT !.r = b.r], st |-> b.st]
    [] r.k \in {"seq", "alt"} -> LET b == NumList(r.xs, 1, st, <<>>) IN [r |-> [r EXCEPT !.xs = b.xs], st |-> b.st]
    [] r.k = "bref" -> [r |-> r, st |-> [st EXCEPT !.ok = @ /\ r.n \in st.closed]]
    [] OTHER -> [r |-> r, st |-> st]
NumList(xs, x, st, acc) ==
  IF x > Len(xs) THEN [xs |-> acc, st |-> st]
  ELSE LET b == Num(xs[x], st) IN NumList(xs, x + 1, b.st, Append(acc, b.r))
Number(r) == Num(r, [ng |-> 0, closed |-> {}, ok |-> TRUE])

(* static parent of each group (0 = the whole match), for the analyze tree *)
RECURSIVE Parents(_, _, _)
Parents(r, cur, acc) ==                       \* acc: function group -> parent, as a set of pairs
  CASE r.k = "grp" -> Parents(r.r, r.n, acc \cup {<<r.n, cur>>})
    [] r.k \in {"ncg", "rep"} -> Parents(r.r, cur, acc)
    [] r.k \in {"seq", "alt"} -> FoldLeft(LAMBDA a, x : Parents(x, cur, a), acc, r.xs)
    [] OTHER -> acc
ParentFn(r, ng) == LET P == Parents(r, 0, {}) IN [g \in 1..ng |-> (CHOOSE p \in P : p[1] = g)[2]]
=============================================================================
