SPECIFICATION MSpec
CHECK_DEADLOCK FALSE
CONSTANTS
  Leaves <- LvMachine
  Quants <- QMachine
  MaxSize = 3
  Shapes <- MShapes
  FlagSets <- MFlags
  MaxGroups = 2
  SeqCost = 0
  AltCost = 1
  MAlpha = {97, 98}
  MMaxLen = 3
  EmptyRule = TRUE
INVARIANTS MRefines MWellFormed
PROPERTY MTerminates
