INIT FInit
NEXT FNext
CHECK_DEADLOCK FALSE
POSTCONDITION FAccepted
