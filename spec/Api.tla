--------------------------------- MODULE Api ---------------------------------
(* The public API as a state machine: compiled regexes and live iterators.      *)
(* One action per public entry point; `last` is the result the caller sees.     *)
(* The result of a call is a function of regs[r].src and the call's arguments   *)
(* (and, for a `next`, of that iterator's own record) in EVERY interleaving:    *)
(* that sentence is property C18.                                               *)
(* Iterator records carry ghost fields (out, n) used only by the invariants.    *)
EXTENDS ApiOps

VARIABLES regs,    \* RegId  -> [src |-> <<pat, flags, X>>, prog]
          iters,   \* IterId -> [reg, kind |-> "tok"|"ana", s, st, out, n]
          last     \* [op, res] of the call just made (observation only)
avars == <<regs, iters, last>>

AInit == regs = <<>> /\ iters = <<>> /\ last = [op |-> "none", res |-> [k |-> "none"]]

ErrOf(o) == [k |-> "err", e |-> o.e]
ACompile(r, pat, flags, X) ==
  /\ r \notin DOMAIN regs
  /\ LET c == Compile(pat, flags, X) IN
     /\ c.k # "uns"
     /\ regs' = IF c.k = "ok" THEN (r :> [src |-> <<pat, flags, X>>, prog |-> c.prog]) @@ regs ELSE regs
     /\ last' = [op |-> "compile", res |-> IF c.k = "ok" THEN [k |-> "ok"] ELSE c]
  /\ UNCHANGED iters
AIsMatch(r, s) ==
  /\ r \in DOMAIN regs
  /\ last' = [op |-> "is_match", res |-> OpIsMatch(regs[r].prog, s)]
  /\ UNCHANGED <<regs, iters>>
AReplace(r, s, repl) ==
  /\ r \in DOMAIN regs
  /\ last' = [op |-> "replace_all", res |-> OpReplace(regs[r].prog, s, repl)]
  /\ UNCHANGED <<regs, iters>>
AOpen(kind, r, s, it) ==
  /\ r \in DOMAIN regs /\ it \notin DOMAIN iters
  /\ LET o == IF kind = "tok" THEN TokOpen(regs[r].prog, s) ELSE AnaOpen(regs[r].prog, s) IN
     /\ iters' = IF o.k = "ok"
                 THEN (it :> [reg |-> r, kind |-> kind, s |-> s, st |-> o.it, out |-> <<>>, n |-> 0]) @@ iters
                 ELSE iters
     /\ last' = [op |-> IF kind = "tok" THEN "tokenize" ELSE "analyze",
                 res |-> IF o.k = "ok" THEN [k |-> "ok"] ELSE ErrOf(o)]
  /\ UNCHANGED regs
RECURSIVE EntryText(_)
EntryText(t) == FoldLeft(LAMBDA acc, nd : acc \o (IF "s" \in DOMAIN nd THEN nd.s ELSE EntryText(nd.v)), <<>>, t)
ItemText(kind, v) == IF kind = "tok" THEN v ELSE IF "n" \in DOMAIN v THEN v.n ELSE EntryText(v.m)
StepOf(I) == IF I.kind = "tok" THEN TokStep(regs[I.reg].prog, I.s, I.st) ELSE AnaStep(regs[I.reg].prog, I.s, I.st)
ANext(it) ==
  /\ it \in DOMAIN iters
  /\ LET I == iters[it]  st == StepOf(I) IN
     /\ iters' = [iters EXCEPT ![it].st = st.it,
                               ![it].n = IF st.res.k = "some" THEN @ + 1 ELSE @,
                               ![it].out = IF st.res.k # "some" THEN @
                                           ELSE IF I.kind = "ana" /\ st.m # <<>>     \* the text of a Match entry is its span
                                           THEN @ \o SubSeq(I.s, st.m.st, st.m.en - 1)
                                           ELSE @ \o ItemText(I.kind, st.res.v)]
     /\ last' = [op |-> IF I.kind = "tok" THEN "tok_next" ELSE "ana_next", res |-> st.res]
  /\ UNCHANGED regs
ADropIter(it) ==
  /\ it \in DOMAIN iters
  /\ iters' = [j \in DOMAIN iters \ {it} |-> iters[j]]
  /\ last' = [op |-> "drop", res |-> [k |-> "none"]] /\ UNCHANGED regs
ADropReg(r) ==
  /\ r \in DOMAIN regs /\ \A j \in DOMAIN iters : iters[j].reg # r       \* an iterator borrows its Regex
  /\ regs' = [q \in DOMAIN regs \ {r} |-> regs[q]]
  /\ last' = [op |-> "drop", res |-> [k |-> "none"]] /\ UNCHANGED iters

(* ---- invariants of the state machine (T5, T6, T14) ------------------------------ *)
(* T5 partition: what an analyze iterator has emitted plus what it has not yet read is the input;   *)
(* a tokenize iterator has emitted the gaps before its cursor.                                      *)
NextPos(I) == IF I.kind = "ana" /\ I.st.pend # <<>> THEN I.st.pend.st ELSE I.st.cur
T5_Inv == \A it \in DOMAIN iters : LET I == iters[it] IN
  /\ I.kind = "ana" => (~I.st.done => I.out = SubSeq(I.s, 1, NextPos(I) - 1))
                       /\ (I.st.done => I.out = I.s \/ I.n = 0)
  /\ I.kind = "tok" => Len(I.out) <= Len(I.s)
(* T6 bounds: at most len+1 tokens, 2*len+1 entries; once done the iterator stays done. *)
T6_Inv == \A it \in DOMAIN iters : LET I == iters[it] IN
  /\ I.kind = "tok" => I.n <= Len(I.s) + 1
  /\ I.kind = "ana" => I.n <= 2 * Len(I.s) + 1
  /\ I.st.cur <= Len(I.s) + 2
T6_Progress == [][\A it \in DOMAIN iters \cap DOMAIN iters' :
                    /\ iters'[it].st.cur >= iters[it].st.cur
                    /\ (iters[it].st.done => iters'[it].st.done /\ iters'[it].n = iters[it].n)
                    /\ (iters'[it].n > iters[it].n /\ iters[it].kind = "tok" => iters'[it].st.cur > iters[it].st.cur \/ iters'[it].st.done)]_avars
(* T14 purity: two registers compiled from the same source are the same program, whatever happened since *)
T14_Pure == \A a, b \in DOMAIN regs : regs[a].src = regs[b].src => regs[a].prog = regs[b].prog
=============================================================================
