------------------------------- MODULE Syntax -------------------------------
(* The XPath 3.1 / XSD 1.1 regular-expression grammar as a total parser.       *)
(*   Parse(p, X) : p = pattern (code points), X = TRUE for the XPath dialect   *)
(*     -> [v |-> "ok", ast, ng] | [v |-> "syn"] | [v |-> "uns"]                *)
(* "uns" marks the corners where the recommendation cannot be reconstructed    *)
(* with certainty offline (DESIGN 3.4): hyphens in doubtful positions of a     *)
(* class expression, quantifier bounds above 2^31-1.                           *)
(* Grammar (XSD 1.1 part 2, appendix G; F&O 3.1 section 5.6.1 for X):          *)
(*   regExp ::= branch ('|' branch)*      branch ::= piece*                    *)
(*   piece  ::= atom quantifier?          quantifier ::= [?*+] | '{' n (',' m?)? '}' , X: optional '?' after it *)
(*   atom   ::= NormalChar | charClass | '(' regExp ')' | X: '(?:' regExp ')' | X: '^' | '$' | back-reference *)
EXTENDS Render

Syn == [v |-> "syn"]
Uns == [v |-> "uns"]
At(p, i) == IF i >= 1 /\ i <= Len(p) THEN p[i] ELSE -1           \* -1 = end of pattern
IsDig(c) == c >= 48 /\ c <= 57
BigBound == 2147483647

(* ---- numbers: returns [n, i, big] -------------------------------------------- *)
RECURSIVE PNum(_, _, _, _)
PNum(p, i, n, big) ==
  IF IsDig(At(p, i))
  THEN IF big \/ n > 214748364 \/ (n = 214748364 /\ p[i] - 48 > 7)
       THEN PNum(p, i + 1, n, TRUE) ELSE PNum(p, i + 1, n * 10 + (p[i] - 48), FALSE)
  ELSE [n |-> n, i |-> i, big |-> big]

(* ---- escapes ------------------------------------------------------------------ *)
SingleEscChars == {92, 124, 46, 45, 94, 63, 42, 43, 123, 125, 40, 41, 91, 93}  \* \ | . - ^ ? * + { } ( ) [ ]
MultiEsc(c) == CASE c = 115 -> "s" [] c = 83 -> "S" [] c = 105 -> "i" [] c = 73 -> "I" [] c = 99 -> "c"
                 [] c = 67 -> "C" [] c = 100 -> "d" [] c = 68 -> "D" [] c = 119 -> "w" [] c = 87 -> "W"
                 [] OTHER -> ""
RECURSIVE FindClose(_, _)
FindClose(p, i) == IF i > Len(p) THEN 0 ELSE IF p[i] = 125 THEN i ELSE FindClose(p, i + 1)

(* escape at p[i] = '\'.  Returns [v|->"chr", c, i] | [v|->"item", it, i] | [v|->"bref", n, i] | Syn *)
RECURSIVE BrefNum(_, _, _, _)
BrefNum(p, i, n, ng) ==                      \* longest number not exceeding the groups opened so far
  IF IsDig(At(p, i)) /\ n * 10 + (p[i] - 48) <= ng THEN BrefNum(p, i + 1, n * 10 + (p[i] - 48), ng)
  ELSE [n |-> n, i |-> i]
PEscape(p, i, st, X, inClass) ==
  LET c == At(p, i + 1) IN
  IF c = -1 THEN Syn
  ELSE IF c = 110 THEN [v |-> "chr", c |-> 10, i |-> i + 2]
  ELSE IF c = 114 THEN [v |-> "chr", c |-> 13, i |-> i + 2]
  ELSE IF c = 116 THEN [v |-> "chr", c |-> 9, i |-> i + 2]
  ELSE IF c \in SingleEscChars THEN [v |-> "chr", c |-> c, i |-> i + 2]
  ELSE IF c = 36 THEN IF X THEN [v |-> "chr", c |-> 36, i |-> i + 2] ELSE Syn
  ELSE IF MultiEsc(c) # "" THEN [v |-> "item", it |-> [t |-> "e", e |-> MultiEsc(c)], i |-> i + 2]
  ELSE IF c \in {112, 80} THEN
         IF At(p, i + 2) # 123 THEN Syn
         ELSE LET cl == FindClose(p, i + 3) IN
              IF cl = 0 THEN Syn
              ELSE LET name == SubSeq(p, i + 3, cl - 1) IN
                   IF CatStr(name) # ""
                   THEN [v |-> "item", it |-> [t |-> "p", neg |-> (c = 80), name |-> CatStr(name)], i |-> cl + 1]
                   ELSE IF Len(name) >= 2 /\ name[1] = 73 /\ name[2] = 115 /\ BlockKnown(SubSeq(name, 3, Len(name)))
                   THEN [v |-> "item", it |-> [t |-> "b", neg |-> (c = 80), name |-> SubSeq(name, 3, Len(name))],
                         i |-> cl + 1]
                   ELSE Syn
  ELSE IF c >= 49 /\ c <= 57 THEN
         IF inClass \/ ~X THEN Syn
         ELSE LET b == BrefNum(p, i + 2, c - 48, st.ng) IN
              IF b.n \in st.closed THEN [v |-> "bref", n |-> b.n, i |-> b.i] ELSE Syn
  ELSE Syn

(* ---- class expressions -------------------------------------------------------- *)
(* PClass(p, i, st, X): p[i] = '['.  Returns [v|->"ok", cls, i] | Syn | Uns.        *)
(* PItems scans the parts; n = number of parts so far.                              *)
RECURSIVE PClass(_, _, _, _), PItems(_, _, _, _, _, _)
PSingle(p, j, st, X) ==                      \* a singleChar at j (not '-', '[', ']'): [v|->"chr",c,i] | item | Syn
  LET c == At(p, j) IN
  IF c = -1 \/ c = 91 \/ c = 93 THEN Syn
  ELSE IF c = 92 THEN PEscape(p, j, st, X, TRUE)
  ELSE [v |-> "chr", c |-> c, i |-> j + 1]
PItems(p, j, st, X, items, neg) ==
  LET c == At(p, j)
      Close(sub, k) == IF items = <<>> THEN Syn
                       ELSE [v |-> "ok", i |-> k,
                             cls |-> [k |-> "cls", neg |-> neg, items |-> items, sub |-> sub, bare |-> FALSE]]
  IN
  IF c = -1 THEN Syn
  ELSE IF c = 93 THEN Close(<<>>, j + 1)
  ELSE IF c = 91 THEN Syn
  ELSE IF c = 45 /\ At(p, j + 1) = 91 THEN                        \* '-[' : subtraction
         IF items = <<>> THEN Syn
         ELSE LET sb == PClass(p, j + 1, st, X) IN
              IF sb.v # "ok" THEN sb
              ELSE IF At(p, sb.i) # 93 THEN Syn
              ELSE Close(<<sb.cls>>, sb.i + 1)
  ELSE IF c = 45 /\ At(p, j + 1) = 45 /\ At(p, j + 2) = 91         \* '--[' : a literal hyphen ends the positive group,
       THEN PItems(p, j + 1, st, X, Append(items, [t |-> "c", c |-> 45]), neg)   \*   then a subtraction follows
  ELSE IF c = 45 /\ At(p, j + 1) = 45 THEN Uns                    \* any other two adjacent unescaped hyphens
  ELSE IF c = 45 /\ ~(items = <<>> \/ At(p, j + 1) = 93) THEN Uns \* hyphen neither first nor last
  ELSE LET a == IF c = 45 THEN [v |-> "chr", c |-> 45, i |-> j + 1] ELSE PSingle(p, j, st, X) IN
       IF a.v = "syn" THEN Syn
       ELSE IF a.v = "item" THEN PItems(p, a.i, st, X, Append(items, a.it), neg)
       ELSE \* a single character; does a range follow?
            IF At(p, a.i) = 45 /\ At(p, a.i + 1) = 45 /\ At(p, a.i + 2) = 91 /\ c # 45
            THEN PItems(p, a.i, st, X, Append(items, [t |-> "c", c |-> a.c]), neg)   \* 'a--[' : handled by the '--[' case
            ELSE IF At(p, a.i) = 45 /\ At(p, a.i + 1) \notin {93, 91, -1}
            THEN IF At(p, a.i + 1) = 45 \/ c = 45 THEN Uns          \* 'a--', or a range starting at a literal first hyphen
                 ELSE LET b == PSingle(p, a.i + 1, st, X) IN
                      IF b.v # "chr" THEN Syn                     \* class escape or '[' after '-'
                      ELSE IF a.c > b.c THEN Syn                  \* reversed range
                      ELSE PItems(p, b.i, st, X, Append(items, [t |-> "r", lo |-> a.c, hi |-> b.c]), neg)
            ELSE PItems(p, a.i, st, X, Append(items, [t |-> "c", c |-> a.c]), neg)
PClass(p, i, st, X) ==
  IF At(p, i + 1) = 94 THEN PItems(p, i + 2, st, X, <<>>, TRUE)
  ELSE PItems(p, i + 1, st, X, <<>>, FALSE)

(* ---- quantifiers: at i (just after an atom).  [v|->"none"] | [v|->"ok", min, max, lazy, q, i] | Syn | Uns *)
PQuant(p, i, X) ==
  LET c == At(p, i)
      Lazy(res) == IF At(p, res.i) = 63 /\ X THEN [res EXCEPT !.lazy = TRUE, !.i = res.i + 1] ELSE res
  IN
  IF c = 63 THEN Lazy([v |-> "ok", min |-> 0, max |-> 1, lazy |-> FALSE, q |-> "s", i |-> i + 1])
  ELSE IF c = 42 THEN Lazy([v |-> "ok", min |-> 0, max |-> -1, lazy |-> FALSE, q |-> "s", i |-> i + 1])
  ELSE IF c = 43 THEN Lazy([v |-> "ok", min |-> 1, max |-> -1, lazy |-> FALSE, q |-> "s", i |-> i + 1])
  ELSE IF c = 123 THEN
         IF ~IsDig(At(p, i + 1)) THEN Syn
         ELSE LET a == PNum(p, i + 1, 0, FALSE) IN
              IF At(p, a.i) = 125
              THEN IF a.big THEN Uns
                   ELSE Lazy([v |-> "ok", min |-> a.n, max |-> a.n, lazy |-> FALSE, q |-> "n", i |-> a.i + 1])
              ELSE IF At(p, a.i) # 44 THEN Syn
              ELSE IF At(p, a.i + 1) = 125
                   THEN IF a.big THEN Uns
                        ELSE Lazy([v |-> "ok", min |-> a.n, max |-> -1, lazy |-> FALSE, q |-> "n", i |-> a.i + 2])
              ELSE IF ~IsDig(At(p, a.i + 1)) THEN Syn
              ELSE LET b == PNum(p, a.i + 1, 0, FALSE) IN
                   IF At(p, b.i) # 125 THEN Syn
                   ELSE IF a.big \/ b.big THEN Uns
                   ELSE IF a.n > b.n THEN Syn
                   ELSE Lazy([v |-> "ok", min |-> a.n, max |-> b.n, lazy |-> FALSE, q |-> "m", i |-> b.i + 1])
  ELSE [v |-> "none"]

(* ---- regExp / branch / piece / atom ---------------------------------------------- *)
(* all return [v|->"ok", ast, i, st] | Syn | Uns;  st = [ng, closed]                    *)
RECURSIVE PRegExp(_, _, _, _), PBranches(_, _, _, _, _), PBranch(_, _, _, _, _), PAtom(_, _, _, _)
Eps0 == [k |-> "seq", xs |-> <<>>]
PAtom(p, i, st, X) ==
  LET c == At(p, i) IN
  IF c = 40 THEN
       IF At(p, i + 1) = 63 /\ At(p, i + 2) = 58 THEN
            IF ~X THEN Syn
            ELSE LET b == PRegExp(p, i + 3, st, X) IN
                 IF b.v # "ok" THEN b
                 ELSE IF At(p, b.i) # 41 THEN Syn
                 ELSE [v |-> "ok", ast |-> [k |-> "ncg", r |-> b.ast], i |-> b.i + 1, st |-> b.st]
       ELSE LET n == st.ng + 1
                b == PRegExp(p, i + 1, [st EXCEPT !.ng = n], X) IN
            IF b.v # "ok" THEN b
            ELSE IF At(p, b.i) # 41 THEN Syn
            ELSE [v |-> "ok", ast |-> [k |-> "grp", n |-> n, r |-> b.ast], i |-> b.i + 1,
                  st |-> [b.st EXCEPT !.closed = @ \cup {n}]]
  ELSE IF c = 91 THEN LET b == PClass(p, i, st, X) IN
                      IF b.v # "ok" THEN b ELSE [v |-> "ok", ast |-> b.cls, i |-> b.i, st |-> st]
  ELSE IF c = 46 THEN [v |-> "ok", ast |-> [k |-> "dot"], i |-> i + 1, st |-> st]
  ELSE IF c = 94 /\ X THEN [v |-> "ok", ast |-> [k |-> "bol"], i |-> i + 1, st |-> st]
  ELSE IF c = 36 /\ X THEN [v |-> "ok", ast |-> [k |-> "eol"], i |-> i + 1, st |-> st]
  ELSE IF c = 92 THEN
       LET e == PEscape(p, i, st, X, FALSE) IN
       IF e.v = "syn" THEN Syn
       ELSE IF e.v = "chr" THEN [v |-> "ok", ast |-> [k |-> "chr", c |-> e.c], i |-> e.i, st |-> st]
       ELSE IF e.v = "bref" THEN [v |-> "ok", ast |-> [k |-> "bref", n |-> e.n], i |-> e.i, st |-> st]
       ELSE [v |-> "ok", i |-> e.i, st |-> st,
             ast |-> [k |-> "cls", neg |-> FALSE, items |-> <<e.it>>, sub |-> <<>>, bare |-> TRUE]]
  ELSE IF c \in {-1, 63, 42, 43, 123, 125, 41, 124, 93} THEN Syn      \* ? * + { } ) | ] cannot start an atom
  ELSE [v |-> "ok", ast |-> [k |-> "chr", c |-> c], i |-> i + 1, st |-> st]

PBranch(p, i, st, X, acc) ==
  IF At(p, i) \in {-1, 124, 41}
  THEN [v |-> "ok", i |-> i, st |-> st,
        ast |-> IF Len(acc) = 1 THEN acc[1] ELSE [k |-> "seq", xs |-> acc]]
  ELSE LET a == PAtom(p, i, st, X) IN
       IF a.v # "ok" THEN a
       ELSE LET q == PQuant(p, a.i, X) IN
            IF q.v \in {"syn", "uns"} THEN q
            ELSE IF q.v = "none" THEN PBranch(p, a.i, a.st, X, Append(acc, a.ast))
            ELSE PBranch(p, q.i, a.st, X,
                   Append(acc, [k |-> "rep", r |-> a.ast, min |-> q.min, max |-> q.max, lazy |-> q.lazy,
                                q |-> IF q.q = "m" THEN "n" ELSE q.q]))
PBranches(p, i, st, X, acc) ==
  LET b == PBranch(p, i, st, X, <<>>) IN
  IF b.v # "ok" THEN b
  ELSE IF At(p, b.i) = 124 THEN PBranches(p, b.i + 1, b.st, X, Append(acc, b.ast))
  ELSE [v |-> "ok", i |-> b.i, st |-> b.st,
        ast |-> IF acc = <<>> THEN b.ast ELSE [k |-> "alt", xs |-> Append(acc, b.ast)]]
PRegExp(p, i, st, X) == PBranches(p, i, st, X, <<>>)

Parse(p, X) ==
  LET r == PRegExp(p, 1, [ng |-> 0, closed |-> {}], X) IN
  IF r.v # "ok" THEN r
  ELSE IF r.i # Len(p) + 1 THEN Syn                                   \* an unmatched ')'
  ELSE [v |-> "ok", ast |-> r.ast, ng |-> r.st.ng]

(* ---- flags ---------------------------------------------------------------------- *)
(* ParseFlags(f, X) -> [v |-> "ok", i, m, s, x, q] | [v |-> "bad"] | [v |-> "uns"]      *)
RECURSIVE PFlags(_, _, _, _)
PFlags(f, k, X, acc) ==
  IF k > Len(f) THEN acc
  ELSE LET c == f[k] IN
       IF c = 59 THEN [v |-> "uns"]                                     \* ';' : engine-specific options
       ELSE IF c = 105 THEN PFlags(f, k + 1, X, [acc EXCEPT !.i = TRUE])
       ELSE IF c = 109 THEN PFlags(f, k + 1, X, [acc EXCEPT !.m = TRUE])
       ELSE IF c = 115 THEN PFlags(f, k + 1, X, [acc EXCEPT !.s = TRUE])
       ELSE IF c = 120 THEN PFlags(f, k + 1, X, [acc EXCEPT !.x = TRUE])
       ELSE IF c = 113 /\ X THEN PFlags(f, k + 1, X, [acc EXCEPT !.q = TRUE])
       ELSE [v |-> "bad"]
ParseFlags(f, X) == PFlags(f, 1, X, [v |-> "ok", i |-> FALSE, m |-> FALSE, s |-> FALSE, x |-> FALSE, q |-> FALSE])

(* ---- flag x: remove TAB LF CR SPACE outside class expressions ---------------------- *)
RECURSIVE StripFrom(_, _, _, _, _)
StripFrom(p, i, depth, esc, acc) ==
  IF i > Len(p) THEN acc
  ELSE LET c == p[i] IN
    IF depth = 0 /\ c \in Ws4 THEN StripFrom(p, i + 1, depth, esc, acc)       \* removed; esc survives: "\ n" = "\n"
    ELSE IF esc THEN StripFrom(p, i + 1, depth, FALSE, Append(acc, c))
    ELSE IF c = 92 THEN StripFrom(p, i + 1, depth, TRUE, Append(acc, c))
    ELSE IF c = 91 THEN StripFrom(p, i + 1, depth + 1, FALSE, Append(acc, c))
    ELSE IF c = 93 /\ depth > 0 THEN StripFrom(p, i + 1, depth - 1, FALSE, Append(acc, c))
    ELSE StripFrom(p, i + 1, depth, FALSE, Append(acc, c))
Strip(p) == StripFrom(p, 1, 0, FALSE, <<>>)
=============================================================================
