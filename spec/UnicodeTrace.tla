---------------------------- MODULE UnicodeTrace ----------------------------
(* C10: the membership vectors of every category / block / multi-character    *)
(* escape over ALL Unicode scalar values, observed from the real code by       *)
(* `vharness sweep unicode` as maximal runs <<lo, hi, yes>> (yes = indices of  *)
(* the escapes that match every scalar of the run), are validated run by run.  *)
(* The runs are additionally split at every boundary of the reference data, so *)
(* that checking both ends of a run checks every scalar in it; the trace spec  *)
(* re-checks that premise (NoInnerBoundary).                                   *)
(* One TLC state per run; a mismatch prints "MISMATCH <line> unicode <json>".  *)
EXTENDS Semantics, TLC

Rec == ndJsonDeserialize(IOEnv.TRACE)
Names == Rec[1].names
XmlChars == JsonDeserialize(DataDir \o "/xmlchars.json")

VARIABLE l
Ev == Rec[l]
CatOf(k) == Names[k].name
PosCat2 == {k \in 1..Len(Names) : Names[k].t = "p" /\ ~Names[k].neg /\ Names[k].name \in Cat2}

Expected(it, c, oc) ==                        \* oc = the two-letter category the code itself reports for c
  CASE it.t = "p" -> ((IF it.name \in Cat1 THEN FirstLetter(oc) = it.name ELSE oc = it.name) # it.neg)
    [] it.t = "b" -> (InBlock(c, it.name) # it.neg)
    [] it.t = "e" ->
         CASE it.e = "d" -> oc = "Nd"               [] it.e = "D" -> oc # "Nd"
           [] it.e = "w" -> FirstLetter(oc) \notin {"P", "Z", "C"}
           [] it.e = "W" -> FirstLetter(oc) \in {"P", "Z", "C"}
           [] it.e = "s" -> c \in Ws4               [] it.e = "S" -> c \notin Ws4
           [] it.e = "i" -> NameStartChar(c)        [] it.e = "I" -> ~NameStartChar(c)
           [] it.e = "c" -> NameChar(c)             [] it.e = "C" -> ~NameChar(c)

Report(what) == PrintT("MISMATCH " \o ToString(l) \o " unicode " \o ToJson(<<what>>))
NoInnerBoundary(lo, hi) ==
  /\ GcSearchIdx(lo) = GcSearchIdx(hi)
  /\ \A k \in 1..Len(BlockTable) : /\ ~(lo < BlockTable[k].lo /\ BlockTable[k].lo <= hi)
                                   /\ ~(lo <= BlockTable[k].hi /\ BlockTable[k].hi < hi)
  /\ \A iv \in ToSet(XmlChars.namestart) \cup ToSet(XmlChars.namechar_extra) :
        ~(lo < iv[1] /\ iv[1] <= hi) /\ ~(lo <= iv[2] /\ iv[2] < hi)
  /\ \A w \in Ws4 : ~(lo < w /\ w <= hi) /\ ~(lo <= w /\ w < hi)
  /\ \A b \in {57344, 63744, 983040, 1048574, 1048576, 1114110} : ~(lo < b /\ b <= hi)   \* PrivateUse ranges
CheckAt(c, yes) ==
  LET pc == PosCat2 \cap yes IN
  IF Cardinality(pc) # 1 THEN Report([c |-> c, what |-> "two-letter categories do not partition", n |-> Cardinality(pc)])
  ELSE LET oc == CatOf(CHOOSE k \in pc : TRUE)
           bad == {k \in 1..Len(Names) : (k \in yes) # Expected(Names[k], c, oc)} IN
       /\ (GcKnown(c) /\ oc # Gc(c)) => Report([c |-> c, what |-> "category", observed |-> oc, unicode14 |-> Gc(c)])
       /\ bad # {} => Report([c |-> c, what |-> "escape", observed_category |-> oc,
                              item |-> Names[CHOOSE k \in bad : TRUE], matches |-> (CHOOSE k \in bad : TRUE) \in yes])

UInit == l = 2 /\ TLCSet(10, 2)
      \* the predicate form (Chars.tla) and the interval form (data/xmlchars.json) of the XML name characters agree
      /\ \A iv \in ToSet(XmlChars.namestart) : NameStartChar(iv[1]) /\ NameStartChar(iv[2])
                                               /\ ~NameStartChar(iv[1] - 1) /\ ~NameStartChar(iv[2] + 1)
      /\ \A jv \in ToSet(XmlChars.namechar_extra) : NameChar(jv[1]) /\ NameChar(jv[2])
UNext == /\ l <= Len(Rec) /\ l' = l + 1 /\ TLCSet(10, l + 1)
         /\ IF Ev.ev # "seg" THEN Report([what |-> "sweep failed", ev |-> Ev])
            ELSE LET yes == ToSet(Ev.yes) IN
                 /\ (NoInnerBoundary(Ev.lo, Ev.hi) \/ PrintT("BADSPLIT " \o ToString(l)))
                 /\ CheckAt(Ev.lo, yes) /\ (Ev.hi # Ev.lo => CheckAt(Ev.hi, yes))
UAccepted == /\ PrintT("TRACE-STATS " \o ToJson([lines |-> Len(Rec), consumed |-> TLCGet(10) - 1, escapes |-> Len(Names)]))
             /\ TLCGet(10) = Len(Rec) + 1
=============================================================================
