INIT GInit
NEXT GNext
CHECK_DEADLOCK FALSE
CONSTANTS
  Leaves <- LvSem
  Quants <- QAll
  MaxSize = 3
  Shapes <- ShapesAll
  FlagSets <- OnlyNoFlags
  MaxGroups = 2
  SeqCost = 0
  AltCost = 1
  Alpha = {97, 98}
  MaxLen = 3
  Repl2 <- ReplSpan
  Variants = {"base"}
  EmitMode = "none"
INVARIANTS T1_RoundTrip T2_OrderFree T3_Leftmost T5_Partition T7_Nullable Emit
