------------------------------ MODULE ClassTrace ------------------------------
(* C09: the set of scalar values the real code gives to a class expression      *)
(* (observed by `vharness sweep classes` through is_match of ^C$, ^(?:C)+$ and   *)
(* ^x?(C)$ on every one-character string) must be the set the algebra of the    *)
(* spec gives it: union of the parts, complement within the scalar values for   *)
(* [^..], difference for -[..], complements for \D \W \S \I \C \P{..}.          *)
(*   "class"    events carry full interval sets (flag-free): compared as sets   *)
(*   "classpts" events carry membership at chosen points (also under flag i,    *)
(*              CaseKnown points only): compared pointwise with InClass          *)
EXTENDS Syntax, TLC

Rec == ndJsonDeserialize(IOEnv.TRACE)
VARIABLE l
Ev == Rec[l]
Report(kind, what) == PrintT("MISMATCH " \o ToString(l) \o " " \o kind \o " " \o ToJson(<<what>>))

RECURSIVE ClsUsesGcT(_), ClsCharsT(_)
ClsUsesGcT(c) == (\E k \in 1..Len(c.items) : c.items[k].t = "p" \/ (c.items[k].t = "e" /\ c.items[k].e \in {"d","D","w","W"}))
                 \/ (c.sub # <<>> /\ ClsUsesGcT(c.sub[1]))
ClsCharsT(c) == UNION {CASE c.items[k].t = "c" -> {<<c.items[k].c, c.items[k].c>>}
                         [] c.items[k].t = "r" -> {<<c.items[k].lo, c.items[k].hi>>}
                         [] OTHER -> {} : k \in 1..Len(c.items)}
                \cup (IF c.sub = <<>> THEN {} ELSE ClsCharsT(c.sub[1]))

(* ---- interval form of the base sets ---------------------------------------------- *)
CatIvTable == JsonDeserialize(DataDir \o "/cativ14.json")   \* the table of UnicodeData.tla, one interval list per category name
CatIv == [n \in CatNames \cup {"Cs"} |-> IF n \in DOMAIN CatIvTable THEN CatIvTable[n] ELSE <<>>]
(* run once per check (ClassData.cfg): the interval form agrees with the segment table at every interval end *)
DataOK == \A n \in CatNames : \A k \in 1..Len(CatIv[n]) :
   LET iv == CatIv[n][k] IN
   /\ InCat(iv[1], n) /\ InCat(iv[2], n)
   /\ (iv[1] > 0 => ~InCat(iv[1] - 1, n)) /\ (iv[2] < MaxCp => ~InCat(iv[2] + 1, n))
   /\ (k > 1 => CatIv[n][k-1][2] + 1 < iv[1])
DataInit == l = 0 /\ Assert(DataOK, "cativ14.json disagrees with gc14.json") /\ PrintT("DATA-OK")
Cn14 == CatIv["Cn"]
XmlChars == JsonDeserialize(DataDir \o "/xmlchars.json")
NameStartIv == XmlChars.namestart
NameCharIv == IUnion(XmlChars.namestart, XmlChars.namechar_extra)
WsIv == << <<9, 10>>, <<13, 13>>, <<32, 32>> >>
WordIv == IComplAll(IUnion(IUnion(CatIv["P"], CatIv["Z"]), CatIv["C"]))
EscIv(e) == CASE e = "d" -> CatIv["Nd"]     [] e = "D" -> IComplAll(CatIv["Nd"])
              [] e = "w" -> WordIv          [] e = "W" -> IComplAll(WordIv)
              [] e = "s" -> WsIv            [] e = "S" -> IComplAll(WsIv)
              [] e = "i" -> NameStartIv     [] e = "I" -> IComplAll(NameStartIv)
              [] e = "c" -> NameCharIv      [] e = "C" -> IComplAll(NameCharIv)
BlockIv(name) ==
  IF name = PrivateUseName THEN << <<57344, 63743>>, <<983040, 1048573>>, <<1048576, 1114109>> >>
  ELSE LET k == CHOOSE j \in BlockIdx(name) : TRUE IN << <<BlockTable[k].lo, BlockTable[k].hi>> >>
ItemIv(it) ==
  CASE it.t = "c" -> << <<it.c, it.c>> >>
    [] it.t = "r" -> << <<it.lo, it.hi>> >>
    [] it.t = "e" -> EscIv(it.e)
    [] it.t = "p" -> IF it.neg THEN IComplAll(CatIv[it.name]) ELSE CatIv[it.name]
    [] it.t = "b" -> IF it.neg THEN IComplAll(BlockIv(it.name)) ELSE BlockIv(it.name)
RECURSIVE ClassIv(_)
ClassIv(cls) ==
  LET pos == FoldLeft(LAMBDA acc, it : IUnion(acc, ItemIv(it)), <<>>, cls.items)
      a == IF cls.neg THEN IComplAll(pos) ELSE pos
  IN IF cls.sub = <<>> THEN a ELSE IDiff(a, ClassIv(cls.sub[1]))
ScalarsOf(S) == IDiff(S, Surrogates)

Pairs(set) == [k \in 1..Len(set) |-> <<set[k][1], set[k][2]>>]
CInit == l = 1 /\ TLCSet(10, 1) /\ TLCSet(1, 0) /\ TLCSet(2, 0)
CNext ==
  /\ l <= Len(Rec) /\ l' = l + 1 /\ TLCSet(10, l + 1)
  /\ LET fl == ParseFlags(Ev.flags, TRUE)
         pr == Parse(Ev.pat, TRUE) IN
     IF fl.v # "ok" \/ pr.v = "uns" THEN TLCSet(2, TLCGet(2) + 1)
     ELSE IF pr.v = "syn" THEN
          IF "k" \in DOMAIN Ev.err /\ Ev.err.k = "err" THEN TLCSet(1, TLCGet(1) + 1)
          ELSE Report("class", [what |-> "accepted an invalid class expression"])
     ELSE IF pr.ast.k # "cls" THEN TLCSet(2, TLCGet(2) + 1)
     ELSE IF "k" \in DOMAIN Ev.err THEN Report("class", [what |-> "rejected or failed on a valid class expression", err |-> Ev.err])
     ELSE LET F == [i |-> fl.i, m |-> FALSE, s |-> FALSE]  cls == pr.ast IN
       IF Ev.ev = "class" THEN
          LET spec == ScalarsOf(ClassIv(cls))
              gc == ClsUsesGcT(cls)
              norm(S) == IF gc THEN IDiff(S, Cn14) ELSE S           \* categories of post-14.0 code points are UNSPEC
          IN /\ TLCSet(1, TLCGet(1) + 1)
             /\ \A j \in 1..Len(Ev.sets) :
                  norm(Pairs(Ev.sets[j])) = norm(spec)
                  \/ Report("class", [context |-> j, expected_first |-> SubSeq(spec, 1, IF Len(spec) < 4 THEN Len(spec) ELSE 4),
                                      observed_first |-> SubSeq(Ev.sets[j], 1, IF Len(Ev.sets[j]) < 4 THEN Len(Ev.sets[j]) ELSE 4)])
       ELSE \* classpts: pointwise
          /\ TLCSet(1, TLCGet(1) + 1)
          /\ \A j \in 1..Len(Ev.sets) : \A q \in 1..Len(Ev.sets[j]) :
               LET c == Ev.sets[j][q][1]  got == Ev.sets[j][q][2] IN
               \/ (F.i /\ (~CaseKnown(c) \/ \E pr2 \in ClsCharsT(cls) : \E e \in Exotic : InR(e, pr2[1], pr2[2])))
               \/ (ClsUsesGcT(cls) /\ ~GcKnown(c))
               \/ got = InClass(cls, c, F)
               \/ Report("class", [context |-> j, point |-> c, expected |-> InClass(cls, c, F)])
DataNext == l < 0 /\ l' = l
CAccepted == /\ PrintT("TRACE-STATS " \o ToJson([lines |-> Len(Rec), consumed |-> TLCGet(10) - 1, compared |-> TLCGet(1),
                                                 unspec |-> TLCGet(2)]))
             /\ TLCGet(10) = Len(Rec) + 1
=============================================================================
