INIT DataInit
NEXT DataNext
CHECK_DEADLOCK FALSE
