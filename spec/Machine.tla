------------------------------ MODULE Machine ------------------------------
(* The matcher as an explicit backtracking machine: one TLC step per machine   *)
(* step.  State = the continuation being executed (a list of work items, as in *)
(* Semantics!Run), the position, the captured groups, and a stack of choice    *)
(* points; a choice point records the alternative continuation TOGETHER WITH   *)
(* the position and the captured groups at the time it was created, and        *)
(* backtracking restores all three - the discipline the repaired engine        *)
(* follows (snapshot / restore at every choice point).                         *)
(* Checked by TLC over every pattern the builder of Gen.tla produces, every    *)
(* input up to the bound and every start position:                             *)
(*   MRefines   - when the machine stops, its verdict, end position and        *)
(*                captures are exactly Semantics!FirstAt (the ordered-choice   *)
(*                reference), i.e. the operational design refines the spec;    *)
(*   MTerminates (liveness, under weak fairness of the machine step) - the     *)
(*                machine always stops: no unbounded sequence of zero-width    *)
(*                iterations (C06 at the level of the design).  With the       *)
(*                constant EmptyRule = FALSE (an iteration that consumed       *)
(*                nothing is continued like any other) the machine has         *)
(*                infinite behaviours - e.g. (^)* keeps entering iterations,   *)
(*                its counter growing without bound - so TLC's search no       *)
(*                longer terminates (depth > 2000 after 10 minutes) and        *)
(*                MRefines is refuted first: the rule is what makes the        *)
(*                design terminate.                                            *)
EXTENDS Gen

CONSTANTS MAlpha, MMaxLen, EmptyRule

VARIABLES inp, from, todo, pos, caps, bt, st
mvars == <<stk, sz, ph, fl, inp, from, todo, pos, caps, bt, st>>

LvMachine == {[k |-> "chr", c |-> 97], [k |-> "chr", c |-> 98], [k |-> "bol"], [k |-> "bref", n |-> 1]}
QMachine == {[min |-> 0, max |-> -1, lazy |-> FALSE, q |-> "s"], [min |-> 0, max |-> -1, lazy |-> TRUE, q |-> "s"],
             [min |-> 1, max |-> -1, lazy |-> FALSE, q |-> "s"], [min |-> 0, max |-> 1, lazy |-> FALSE, q |-> "s"],
             [min |-> 2, max |-> 2, lazy |-> FALSE, q |-> "n"], [min |-> 1, max |-> 2, lazy |-> TRUE, q |-> "n"]}
MShapes == {"grp", "ncg", "seq", "alt", "eps"}
MFlags == {NoFlags}
MInputs == UNION {[1..n -> MAlpha] : n \in 0..MMaxLen}

MInit == GInit /\ inp = <<>> /\ from = 0 /\ todo = <<>> /\ pos = 0 /\ caps = <<>> /\ bt = <<>> /\ st = "idle"

Build == ph = "build" /\ GNext /\ UNCHANGED <<inp, from, todo, pos, caps, bt, st>>
Start == /\ ph = "done" /\ st = "idle"
         /\ \E s \in MInputs : \E i \in 1..Len(s) + 1 :
              /\ inp' = s /\ from' = i /\ todo' = <<Ast>> /\ pos' = i /\ caps' = NoCaps(Ng) /\ bt' = <<>> /\ st' = "run"
         /\ UNCHANGED gvars

Backtrack ==                                     \* restore continuation, position AND captures of the newest choice point
  IF bt = <<>> THEN st' = "fail" /\ UNCHANGED <<todo, pos, caps, bt>>
  ELSE LET c == bt[Len(bt)] IN
       /\ todo' = c.todo /\ pos' = c.pos /\ caps' = c.caps /\ bt' = SubSeq(bt, 1, Len(bt) - 1) /\ st' = "run"
Choice(first, second) ==                         \* run `first` now, remember `second` (with the current position and captures)
  /\ todo' = first /\ bt' = Append(bt, [todo |-> second, pos |-> pos, caps |-> caps]) /\ UNCHANGED <<pos, caps, st>>
Go(t) == todo' = t /\ UNCHANGED <<pos, caps, bt, st>>

Step ==
  /\ st = "run" /\ UNCHANGED <<gvars, inp, from>>
  /\ IF todo = <<>> THEN st' = "match" /\ UNCHANGED <<todo, pos, caps, bt>>
     ELSE LET r == todo[1]  rest == Tail(todo)  s == inp  F == fl IN
       CASE r.k \in {"chr", "dot", "cls", "bol", "eol", "bref"} ->
              LET p == Paths(r, s, pos, caps, F) IN
              IF p = {} THEN Backtrack
              ELSE LET x == CHOOSE y \in p : TRUE IN todo' = rest /\ pos' = x[1] /\ caps' = x[2] /\ UNCHANGED <<bt, st>>
         [] r.k = "seq" -> Go(r.xs \o rest)
         [] r.k = "alt" -> IF Len(r.xs) = 1 THEN Go(<<r.xs[1]>> \o rest)
                           ELSE Choice(<<r.xs[1]>> \o rest, <<[r EXCEPT !.xs = Tail(r.xs)]>> \o rest)
         [] r.k = "ncg" -> Go(<<r.r>> \o rest)
         [] r.k = "grp" -> Go(<<r.r, [k |-> "close", n |-> r.n, st |-> pos]>> \o rest)
         [] r.k = "close" -> todo' = rest /\ caps' = [caps EXCEPT ![r.n] = <<r.st, pos>>] /\ UNCHANGED <<pos, bt, st>>
         [] r.k = "rep" -> Go(<<[k |-> "iter", r |-> r, cnt |-> 0]>> \o rest)
         [] r.k = "iter" ->
              LET canMore == r.r.max = -1 \/ r.cnt < r.r.max
                  canStop == r.cnt >= r.r.min
                  more == <<r.r.r, [k |-> "idone", r |-> r.r, cnt |-> r.cnt, st |-> pos]>> \o rest
              IN IF canMore /\ canStop THEN (IF r.r.lazy THEN Choice(rest, more) ELSE Choice(more, rest))
                 ELSE IF canMore THEN Go(more)
                 ELSE IF canStop THEN Go(rest)
                 ELSE Backtrack
         [] r.k = "idone" ->
              IF EmptyRule /\ pos = r.st /\ r.cnt >= r.r.min THEN Backtrack      \* an empty iteration is not continued
              ELSE Go(<<[k |-> "iter", r |-> r.r, cnt |-> r.cnt + 1]>> \o rest)

MNext == Build \/ Start \/ Step
MSpec == MInit /\ [][MNext]_mvars /\ WF_mvars(Step)

MRefines ==
  /\ st = "match" => FirstAt(Ast, Ng, inp, from, fl) = <<pos, caps>>
  /\ st = "fail"  => FirstAt(Ast, Ng, inp, from, fl) = <<>>
(* every choice point lies at or before the current high-water mark of the input, and its captures are well formed *)
MWellFormed == st = "run" => \A k \in 1..Len(bt) : bt[k].pos >= from /\ bt[k].pos <= Len(inp) + 1
MTerminates == [](st = "run" => <>(st # "run"))
=============================================================================
