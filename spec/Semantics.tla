----------------------------- MODULE Semantics -----------------------------
(* What a pattern (as an AST) matches.  Two independently written semantics:  *)
(*   Paths - the SET of <<end, caps>> reachable by any match path (language   *)
(*           semantics, order-free);                                          *)
(*   Ord   - the SEQUENCE of <<end, caps>> in ordered-choice priority.        *)
(* AST nodes (records, field k is the kind):                                  *)
(*   chr c | dot | cls neg items sub bare | bol | eol | seq xs | alt xs       *)
(*   grp n r | ncg r | bref n | rep r min max lazy   (max = -1: unbounded)    *)
(* class items: [t|->"c",c] [t|->"r",lo,hi] [t|->"e",e] (e in d D s S i I c C w W) *)
(*              [t|->"p",neg,name] (category)  [t|->"b",neg,name] (block)     *)
(* Flags F = [i, m, s : BOOLEAN].  Positions are 1-based; a span <<a,b>> is   *)
(* the text s[a..b-1].                                                        *)
EXTENDS UnicodeData, SequencesExt

Unset == <<0, 0>>
NoCaps(n) == [g \in 1..n |-> Unset]
NoFlags == [i |-> FALSE, m |-> FALSE, s |-> FALSE]

EqC(a, b, F) == a = b \/ (F.i /\ Counterpart(a) = b)

EscHas(e, c) ==
  CASE e = "d" -> IsDigitChar(c)     [] e = "D" -> ~IsDigitChar(c)
    [] e = "w" -> IsWordChar(c)      [] e = "W" -> ~IsWordChar(c)
    [] e = "s" -> c \in Ws4          [] e = "S" -> c \notin Ws4
    [] e = "i" -> NameStartChar(c)   [] e = "I" -> ~NameStartChar(c)
    [] e = "c" -> NameChar(c)        [] e = "C" -> ~NameChar(c)

ItemHas(it, c, F) ==
  CASE it.t = "c" -> EqC(c, it.c, F)
    [] it.t = "r" -> InR(c, it.lo, it.hi) \/ (F.i /\ InR(Counterpart(c), it.lo, it.hi))
    [] it.t = "e" -> EscHas(it.e, c)
    [] it.t = "p" -> InCat(c, it.name) # it.neg
    [] it.t = "b" -> InBlock(c, it.name) # it.neg

RECURSIVE InClass(_, _, _)
InClass(cls, c, F) ==
  /\ (\E k \in 1..Len(cls.items) : ItemHas(cls.items[k], c, F)) # cls.neg
  /\ (cls.sub = <<>> \/ ~InClass(cls.sub[1], c, F))

Bol(s, i, F) == i = 1 \/ (F.m /\ i <= Len(s) /\ s[i-1] = LF)
Eol(s, i, F) == i = Len(s) + 1 \/ (F.m /\ s[i] = LF)
DotOk(c, F) == F.s \/ c \notin {LF, CR}
SubEq(s, a, b, i, F) == LET n == b - a IN i + n - 1 <= Len(s) /\ \A k \in 0..(n-1) : EqC(s[i+k], s[a+k], F)

(* ---- set semantics --------------------------------------------------------- *)
RECURSIVE Paths(_,_,_,_,_), SeqPaths(_,_,_,_,_), RepPaths(_,_,_,_,_,_,_)
Paths(r, s, i, caps, F) ==
  CASE r.k = "chr"  -> IF i <= Len(s) /\ EqC(s[i], r.c, F)   THEN {<<i+1, caps>>} ELSE {}
    [] r.k = "dot"  -> IF i <= Len(s) /\ DotOk(s[i], F)      THEN {<<i+1, caps>>} ELSE {}
    [] r.k = "cls"  -> IF i <= Len(s) /\ InClass(r, s[i], F) THEN {<<i+1, caps>>} ELSE {}
    [] r.k = "bol"  -> IF Bol(s, i, F) THEN {<<i, caps>>} ELSE {}
    [] r.k = "eol"  -> IF Eol(s, i, F) THEN {<<i, caps>>} ELSE {}
    [] r.k = "seq"  -> SeqPaths(r.xs, 1, s, {<<i, caps>>}, F)
    [] r.k = "alt"  -> UNION {Paths(r.xs[x], s, i, caps, F) : x \in 1..Len(r.xs)}
    [] r.k = "ncg"  -> Paths(r.r, s, i, caps, F)
    [] r.k = "grp"  -> {<<st[1], [st[2] EXCEPT ![r.n] = <<i, st[1]>>]>> : st \in Paths(r.r, s, i, caps, F)}
    [] r.k = "bref" -> IF caps[r.n] = Unset THEN {<<i, caps>>}
                       ELSE IF SubEq(s, caps[r.n][1], caps[r.n][2], i, F)
                            THEN {<<i + caps[r.n][2] - caps[r.n][1], caps>>} ELSE {}
    [] r.k = "rep"  ->
         (* Counts beyond the length of the input are clamped: at most Len(s) iterations consume anything, so a   *)
         (* path with more than Len(s)+1 iterations contains an iteration that consumes nothing, which can be     *)
         (* repeated or dropped freely (sound for the positions reached; where captures or back-references could  *)
         (* notice, the pattern is not Strict and those are UNSPEC).  Keeps a{1,65535} and (?:^|a){4294967} cheap. *)
         LET L  == Len(s) + 1
             mn == IF r.min > L THEN L ELSE r.min
             mx == IF r.max = -1 THEN -1 ELSE mn + (IF r.max - r.min > L THEN L ELSE r.max - r.min)
         IN RepPaths([r EXCEPT !.min = mn, !.max = mx], s, {<<i, caps>>}, 0, {}, {}, F)
SeqPaths(xs, x, s, S, F) ==
  IF x > Len(xs) \/ S = {} THEN S
  ELSE SeqPaths(xs, x+1, s, UNION {Paths(xs[x], s, st[1], st[2], F) : st \in S}, F)
(* S = states after exactly k iterations.  Once k >= min, states already expanded are dropped, *)
(* so an unbounded repeat of a nullable body terminates (the state space (pos,caps) is finite). *)
RepPaths(r, s, S, k, acc, seen, F) ==
  LET acc2  == IF k >= r.min THEN acc \cup S  ELSE acc
      seen2 == IF k >= r.min THEN seen \cup S ELSE seen
  IN IF S = {} \/ (r.max # -1 /\ k = r.max) THEN acc2
     ELSE LET nxt  == UNION {Paths(r.r, s, st[1], st[2], F) : st \in S}
              nxt2 == IF k+1 >= r.min /\ r.max = -1 THEN nxt \ seen2 ELSE nxt
          IN RepPaths(r, s, nxt2, k+1, acc2, seen2, F)

(* ---- ordered semantics ----------------------------------------------------- *)
Flat(ss) == FoldLeft(LAMBDA acc, x : acc \o x, <<>>, ss)
RECURSIVE Ord(_,_,_,_,_), OrdSeq(_,_,_,_,_,_), OrdRep(_,_,_,_,_,_)
Ord(r, s, i, caps, F) ==
  CASE r.k \in {"chr","dot","cls","bol","eol","bref"} ->
         LET p == Paths(r, s, i, caps, F) IN IF p = {} THEN <<>> ELSE <<CHOOSE x \in p : TRUE>>
    [] r.k = "seq" -> OrdSeq(r.xs, 1, s, i, caps, F)
    [] r.k = "alt" -> Flat([x \in 1..Len(r.xs) |-> Ord(r.xs[x], s, i, caps, F)])
    [] r.k = "ncg" -> Ord(r.r, s, i, caps, F)
    [] r.k = "grp" -> LET a == Ord(r.r, s, i, caps, F)
                      IN [x \in 1..Len(a) |-> <<a[x][1], [a[x][2] EXCEPT ![r.n] = <<i, a[x][1]>>]>>]
    [] r.k = "rep" -> OrdRep(r, s, i, caps, 0, F)
OrdSeq(xs, x, s, i, caps, F) ==
  IF x > Len(xs) THEN << <<i, caps>> >>
  ELSE LET a == Ord(xs[x], s, i, caps, F)
       IN Flat([y \in 1..Len(a) |-> OrdSeq(xs, x+1, s, a[y][1], a[y][2], F)])
OrdRep(r, s, i, caps, k, F) ==
  LET body == IF r.max = -1 \/ k < r.max THEN Ord(r.r, s, i, caps, F) ELSE <<>>
      more == Flat([y \in 1..Len(body) |->
                 IF body[y][1] = i /\ k >= r.min THEN <<>>          \* an empty iteration is not continued
                 ELSE OrdRep(r, s, body[y][1], body[y][2], k+1, F)]) \* (only reachable when ~Strict)
      stop == IF k >= r.min THEN << <<i, caps>> >> ELSE <<>>
  IN IF r.lazy THEN stop \o more ELSE more \o stop

(* ---- static predicates ----------------------------------------------------- *)
RECURSIVE Null(_), Strict(_), HasBref(_), NodeCount(_)
Null(r) ==                                   \* may match the empty string somewhere (static over-approximation)
  CASE r.k \in {"chr","dot","cls"} -> FALSE
    [] r.k \in {"bol","eol","bref"} -> TRUE
    [] r.k = "seq" -> \A x \in 1..Len(r.xs) : Null(r.xs[x])
    [] r.k = "alt" -> \E x \in 1..Len(r.xs) : Null(r.xs[x])
    [] r.k \in {"grp","ncg"} -> Null(r.r)
    [] r.k = "rep" -> r.min = 0 \/ Null(r.r)
Strict(r) ==                                 \* no quantifier applied to a body that can match empty:
  CASE r.k \in {"seq","alt"} -> \A x \in 1..Len(r.xs) : Strict(r.xs[x])     \* the fragment where Perl,
    [] r.k \in {"grp","ncg"} -> Strict(r.r)                                 \* PCRE, Java and JS agree
    [] r.k = "rep" -> ~Null(r.r) /\ Strict(r.r)
    [] OTHER -> TRUE
HasBref(r) ==
  CASE r.k = "bref" -> TRUE
    [] r.k \in {"seq","alt"} -> \E x \in 1..Len(r.xs) : HasBref(r.xs[x])
    [] r.k \in {"grp","ncg","rep"} -> HasBref(r.r)
    [] OTHER -> FALSE
(* Nested repeating constructs.  F&O 3.1 5.6.1: "If a subexpression matched more than once ... only the last    *)
(* substring that it matched will be captured.  Note that this rule is not sufficient in all cases to ensure *)
(* an unambiguous result, especially in cases where (a) the regular expression contains nested repeating     *)
(* constructs, and/or (b) the repeating construct matches a zero-length string.  In such cases it is         *)
(* implementation-dependent which substring is captured."  The case that matters: a quantified term R with a *)
(* group g inside it sits inside a loop, and in a LATER execution of R the group does not participate -      *)
(* because R runs zero times (min = 0) or because g lies in an alternative that R's last execution does not  *)
(* take.  Perl/PCRE/Java keep what the earlier execution captured; ECMAScript, the QT3 expectation test_p303 *)
(* (^((.)?a\2)+$ on babadad) and this engine (groups inside a Repeat are cleared when the Repeat is entered)  *)
(* forget it.  Captures of such patterns - and, through back-references, their language - are UNSPEC.        *)
RECURSIVE HasGrp(_), AltGrp(_), OptGrp(_), IterAmbig(_)
HasGrp(r) == CASE r.k = "grp" -> TRUE
               [] r.k \in {"seq","alt"} -> \E x \in 1..Len(r.xs) : HasGrp(r.xs[x])
               [] r.k \in {"ncg","rep"} -> HasGrp(r.r)
               [] OTHER -> FALSE
AltGrp(r) ==                                  \* some alternation of >= 2 branches has a group in a branch
  CASE r.k = "alt" -> (Len(r.xs) >= 2 /\ HasGrp(r)) \/ \E x \in 1..Len(r.xs) : AltGrp(r.xs[x])
    [] r.k = "seq" -> \E x \in 1..Len(r.xs) : AltGrp(r.xs[x])
    [] r.k \in {"grp","ncg","rep"} -> AltGrp(r.r)
    [] OTHER -> FALSE
OptGrp(r) ==                                  \* some rep node has in its body a group that an execution of it may skip
  CASE r.k = "rep" -> (HasGrp(r.r) /\ (r.min = 0 \/ AltGrp(r.r))) \/ OptGrp(r.r)
    [] r.k \in {"seq","alt"} -> \E x \in 1..Len(r.xs) : OptGrp(r.xs[x])
    [] r.k \in {"grp","ncg"} -> OptGrp(r.r)
    [] OTHER -> FALSE
IterAmbig(r) ==
  CASE r.k = "rep" -> ((r.max = -1 \/ r.max >= 2) /\ OptGrp(r.r)) \/ IterAmbig(r.r)
    [] r.k \in {"seq","alt"} -> \E x \in 1..Len(r.xs) : IterAmbig(r.xs[x])
    [] r.k \in {"grp","ncg"} -> IterAmbig(r.r)
    [] OTHER -> FALSE
NodeCount(r) ==
  1 + CASE r.k \in {"seq","alt"} -> FoldLeft(LAMBDA a, x : a + NodeCount(x), 0, r.xs)
        [] r.k \in {"grp","ncg","rep"} -> NodeCount(r.r)
        [] OTHER -> 0

(* ---- derived: matching along an input -------------------------------------- *)
IsMatchAt(r, ng, s, i, F) == Paths(r, s, i, NoCaps(ng), F) # {}
IsMatch(r, ng, s, F) == \E i \in 1..Len(s)+1 : IsMatchAt(r, ng, s, i, F)
Nullable(r, ng, F) == IsMatchAt(r, ng, <<>>, 1, F)            \* matches the zero-length string (C16)

(* ---- the first success of Ord, computed by backtracking with an explicit continuation ------- *)
(* todo = sequence of work items: AST nodes, [k |-> "close", n, st] (end of group n opened at st), *)
(* [k |-> "iter", r, cnt] (decide about one more iteration of rep node r after cnt iterations),    *)
(* [k |-> "idone", r, cnt, st] (an iteration that started at st has just ended).                   *)
(* Run returns <<>> (no match) or <<end, caps>>: the FIRST element of the list-of-successes of the *)
(* whole continuation, without enumerating the others (theorem T2b: = Head(Ord) on the whole       *)
(* enumerated space).  This is what makes long inputs affordable in trace validation.              *)
RECURSIVE Run(_,_,_,_,_), RunAlt(_,_,_,_,_,_,_)
Run(todo, s, i, caps, F) ==
  IF todo = <<>> THEN <<i, caps>>
  ELSE LET r == todo[1]  rest == Tail(todo) IN
  CASE r.k \in {"chr","dot","cls","bol","eol","bref"} ->
         LET p == Paths(r, s, i, caps, F) IN
         IF p = {} THEN <<>> ELSE LET x == CHOOSE y \in p : TRUE IN Run(rest, s, x[1], x[2], F)
    [] r.k = "seq" -> Run(r.xs \o rest, s, i, caps, F)
    [] r.k = "alt" -> RunAlt(r.xs, 1, rest, s, i, caps, F)
    [] r.k = "ncg" -> Run(<<r.r>> \o rest, s, i, caps, F)
    [] r.k = "grp" -> Run(<<r.r, [k |-> "close", n |-> r.n, st |-> i]>> \o rest, s, i, caps, F)
    [] r.k = "close" -> Run(rest, s, i, [caps EXCEPT ![r.n] = <<r.st, i>>], F)
    [] r.k = "rep" -> Run(<<[k |-> "iter", r |-> r, cnt |-> 0]>> \o rest, s, i, caps, F)
    [] r.k = "iter" ->
         LET more == IF r.r.max = -1 \/ r.cnt < r.r.max
                     THEN Run(<<r.r.r, [k |-> "idone", r |-> r.r, cnt |-> r.cnt, st |-> i]>> \o rest, s, i, caps, F)
                     ELSE <<>>
             stop == IF r.cnt >= r.r.min THEN Run(rest, s, i, caps, F) ELSE <<>>
         IN IF r.r.lazy THEN (IF stop # <<>> THEN stop ELSE more) ELSE (IF more # <<>> THEN more ELSE stop)
    [] r.k = "idone" ->
         IF i = r.st /\ r.cnt >= r.r.min THEN <<>>                \* an empty iteration is not continued
         ELSE Run(<<[k |-> "iter", r |-> r.r, cnt |-> r.cnt + 1]>> \o rest, s, i, caps, F)
RunAlt(xs, x, rest, s, i, caps, F) ==
  IF x > Len(xs) THEN <<>>
  ELSE LET a == Run(<<xs[x]>> \o rest, s, i, caps, F) IN
       IF a # <<>> THEN a ELSE RunAlt(xs, x + 1, rest, s, i, caps, F)
FirstAt(r, ng, s, i, F) == Run(<<r>>, s, i, NoCaps(ng), F)

RECURSIVE FirstFrom(_,_,_,_,_)
(* leftmost start >= from with a match, and the ordered-choice preferred match there: *)
(* [st, en, caps], or <<>> when there is none                                          *)
FirstFrom(r, ng, s, from, F) ==
  IF from > Len(s) + 1 THEN <<>>
  ELSE LET o == FirstAt(r, ng, s, from, F) IN
       IF o # <<>> THEN [st |-> from, en |-> o[1], caps |-> o[2]]
       ELSE FirstFrom(r, ng, s, from + 1, F)

RECURSIVE AllFrom(_,_,_,_,_,_)
AllFrom(r, ng, s, from, F, acc) ==
  LET m == FirstFrom(r, ng, s, from, F) IN
  IF m = <<>> THEN acc
  ELSE IF m.en > m.st THEN AllFrom(r, ng, s, m.en, F, Append(acc, m))
  ELSE IF m.en > Len(s) THEN Append(acc, m)                    \* zero-length (only for nullable patterns):
  ELSE AllFrom(r, ng, s, m.en + 1, F, Append(acc, m))          \*   step over one character
AllMatches(r, ng, s, F) == AllFrom(r, ng, s, 1, F, <<>>)

(* leftmost start >= from where ANY path matches (the order-free notion used by the weak clause of C02) *)
RECURSIVE LeftmostStart(_,_,_,_,_)
LeftmostStart(r, ng, s, from, F) ==
  IF from > Len(s) + 1 THEN 0
  ELSE IF IsMatchAt(r, ng, s, from, F) THEN from ELSE LeftmostStart(r, ng, s, from + 1, F)
EndsAt(r, ng, s, i, F) == {st[1] : st \in Paths(r, s, i, NoCaps(ng), F)}
=============================================================================
