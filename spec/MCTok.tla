------------------------------- MODULE MCTok -------------------------------
(* Generators of raw SOURCES (no AST behind them), each state printing the    *)
(* spec's verdict for replay:                                                 *)
(*   mode "tok"   every token string up to MaxToks over the token alphabet    *)
(*                Toks (valid and invalid patterns alike), in both dialects   *)
(*                when Dialects says so                                        (C07, C17, C05) *)
(*   mode "flags" every flag string up to length 3 over FlagAlpha             (C07 c)        *)
(*   mode "lit"   flag q: every pattern string up to MaxToks over Toks        (C13)          *)
(* Inputs for "lit" are built around the pattern itself (Beh!Inputs are used  *)
(* otherwise).                                                                *)
EXTENDS Beh

CONSTANTS Mode, Toks, MaxToks, Dialects, FlagAlpha, LitFlags
TokFlags == IF FlagAlpha = "x" THEN <<120>> ELSE <<>>               \* the flag string the token strings are compiled with

VARIABLE str            \* sequence of tokens (each a sequence of code points)
tvars == <<str>>

TokSet ==
  CASE Toks = "core" -> { <<97>>, <<98>>, <<40>>, <<40,63,58>>, <<41>>, <<124>>, <<42>>, <<43>>, <<63>>,
                          <<123,50,125>>, <<123,50,44,49,125>>, <<91>>, <<93>>, <<94>>, <<92,49>>, <<92>> }
    [] Toks = "wide" -> { <<97>>, <<40>>, <<40,63,58>>, <<41>>, <<124>>, <<42>>, <<63>>, <<123,50,125>>,
                          <<123,49,44>>, <<125>>, <<91>>, <<93>>, <<94>>, <<45>>, <<92,49>>, <<92>>, <<36>>, <<46>>,
                          <<92,100>>, <<92,112,123,76,125>>, <<92,36>>, <<123>>, <<44>>, <<48>>,
                          <<123,49,125>>, <<123,48,125>>, <<123,49,44,49,125>>, <<92,114>>, <<92,116>> }
    [] Toks = "class" -> { <<91>>, <<93>>, <<94>>, <<45>>, <<97>>, <<98>>, <<92,100>>, <<92,93>>, <<92,45>>, <<45,91>>,
                           <<92,49>>, <<92>> }
    [] Toks = "xws" -> { <<97>>, <<91>>, <<93>>, <<92>>, <<92, 92>>, <<32>>, <<10>>, <<123, 49, 44>>, <<50, 125>>, <<45>>, <<94>>,
                         <<92, 100>> }
    [] Toks = "bref10" -> LET nest(n) == [k \in 1..n |-> 40] \o <<97>> \o [k \in 1..n |-> 41] IN      \* ((((((((((a)))))))))) : ten groups
                          { nest(10), nest(9), <<92,49>>, <<92,57>>, <<48>>, <<49>> }               \* ... then \1 0 / \10 / \9 1 ...
    [] Toks = "xcat" -> { <<91>>, <<93>>, <<92,112,123,76>>, <<117,125>>, <<32>>, <<97>>, <<92,93>> }   \* [ ] \p{L u} space a \] : names and escapes inside classes under flag x
    [] Toks = "grp" -> { <<97>>, <<40>>, <<40,63,58>>, <<41>>, <<92,49>>, <<92,50>>, <<124>> }   \* groups, back-references: which \N is legal where
    [] Toks = "paren" -> { <<40>>, <<41>>, <<97>>, <<91>>, <<92>> }        \* literals full of unbalanced brackets (flag q: all literal)
    [] Toks = "sigma" -> { <<931>>, <<963>>, <<927>>, <<40>> }             \* capital / small sigma, omicron: case folding that depends on the position in a word
    [] Toks = "ab" -> { <<97>>, <<98>>, <<40>> }                  \* literals that overlap themselves: aab, abab, ((a
    [] Toks = "meta" -> { <<97>>, <<98>>, <<40>>, <<41>>, <<91>>, <<93>>, <<123>>, <<125>>, <<92>>, <<63>>, <<42>>,
                          <<43>>, <<124>>, <<46>>, <<94>>, <<36>>, <<32>>, <<9>> }
FlagSet == {115, 109, 105, 120, 113, 97, 88, 32, 59, 103}      \* s m i x q a X space ; g

TInit == str = <<>>
TNext == \E t \in (IF Mode = "flags" THEN {<<c>> : c \in FlagSet} ELSE TokSet) :
           /\ Len(str) < MaxToks /\ str' = Append(str, t)
Text == Flat(str)

LitInputs(p) ==                                \* the pattern embedded in / deleted from small contexts
  LET ctx == {<<>>, <<97>>, <<98>>, <<97, 98>>} IN
  {a \o p \o b : a \in ctx, b \in ctx} \cup {a \o b : a \in ctx, b \in ctx}
  \cup {a \o p \o p \o b : a \in {<<>>, <<97>>}, b \in {<<>>, <<98>>}}
  \cup (IF Len(p) > 1 THEN {SubSeq(p, 1, Len(p) - 1) \o <<97>>, <<97>> \o SubSeq(p, 2, Len(p))} ELSE {})
  \cup LET flip(c) == IF (c \div 32) % 2 = 0 THEN c + 32 ELSE c - 32          \* near misses: one character replaced by
           near(c) == {flip(c), c + 1, c - 1} \cap 1..1114111 IN               \*   a neighbour or its "case bit" flipped
       {[p EXCEPT ![k] = x] : k \in 1..Len(p), x \in UNION {near(p[j]) : j \in 1..Len(p)}}
  \cup LET sw == [k \in 1..Len(p) |-> Counterpart(p[k])] IN                  \* the occurrence in the other case (flag i)
       {a \o sw \o b : a \in {<<>>, <<97>>}, b \in {<<>>, <<98>>}} \cup {sw \o <<120>> \o p}
       \cup UNION {{SubSeq(p, 1, k) \o p, SubSeq(p, 1, k) \o sw, SubSeq(sw, 1, k) \o p, SubSeq(p, 1, k) \o p \o <<120>> \o sw}
                   : k \in 1..(Len(p) - 1)}                                  \* a partial occurrence directly in front of the real one
LitBeh(p, flags) ==                            \* behaviour for a literal pattern with its own inputs
  LET c == Compile(p, flags, TRUE) IN
  IF c.k # "ok" THEN BehOfSrc(<<p, flags, TRUE>>)
  ELSE LET ins == SetToSeq(LitInputs(p)) IN
       [pat |-> p, flags |-> flags, x |-> TRUE, comp |-> "ok", ng |-> c.prog.ng, nullable |-> c.prog.nullable,
        strict |-> c.prog.strict, repl2 |-> Repl2,
        cases |-> [k \in 1..Len(ins) |-> CaseOf(c.prog, ins[k])]]
LitFlagSets == { <<113>>, <<113, 105>>, <<113, 109>>, <<113, 115>>, <<113, 120>>, <<105, 109, 113, 115, 120>> }

EmitTok ==
  CASE Mode = "tok" -> \A X \in Dialects : PrintSrc(<<Text, TokFlags, X>>)
    [] Mode = "flags" -> \A X \in Dialects : PrintSrc(<<<<97>>, Text, X>>)
    [] Mode = "lit" -> \A f \in (IF LitFlags = "all" THEN LitFlagSets ELSE {<<113>>, <<113, 105>>}) :
                         LET b == LitBeh(Text, f) IN IF b = <<>> THEN TRUE ELSE PrintT(<<"B", ToJson(b)>>)

(* T10 (C13): under flag q, is_match is substring occurrence (case-blind under i) *)
Occurs(p, s, F) == \E i \in 1..(Len(s) - Len(p) + 1) : \A k \in 1..Len(p) : EqC(s[i + k - 1], p[k], F)
T10_QLiteral == Mode = "lit" =>
  \A f \in {<<113>>, <<113, 105>>} : LET c == Compile(Text, f, TRUE) IN
     c.k = "ok" => \A s \in LitInputs(Text) :
        (~CaseUnspec(c.prog, s)) => (IsMatch(c.prog.ast, 0, s, c.prog.F) = (Text = <<>> \/ Occurs(Text, s, c.prog.F)))
=============================================================================
