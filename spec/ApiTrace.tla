------------------------------ MODULE ApiTrace ------------------------------
(* Trace validation: an ndjson log of real executions (written by the tracer    *)
(* hook inside regexml, one event per public call at its return) is replayed    *)
(* against Api.tla.  Every event carries its arguments and object ids, so the   *)
(* trace spec never branches: one TLC state per line.                           *)
(* A mismatch does not disable the step: it prints                              *)
(*     <<"MISMATCH", line, kind, expected>>                                     *)
(* and the step is taken with the SPEC's successor state, so that the rest of   *)
(* the trace is still checked.  Acceptance = every line consumed.               *)
(* Registers (TLCGet/TLCSet, -workers 1): 1 compared, 2 skipped as UNSPEC,      *)
(* 3 weak-clause checks, 4 events on objects not followed, 10 lines consumed.   *)
EXTENDS Api

Rec == ndJsonDeserialize(IOEnv.TRACE)

VARIABLES l,       \* next line
          badr,    \* registers not followed (spec could not or did not compile them)
          badi,    \* iterators not followed (diverged, or opened where the spec refuses)
          obs      \* it -> what has been OBSERVED of this iterator: [rid, kind, s, pos, prev, n, done, weak]
tvars == <<regs, iters, last, l, badr, badi, obs>>

Ev == Rec[l]
Bump(i) == TLCSet(i, TLCGet(i) + 1)
Report(kind, exp) == PrintT("MISMATCH " \o ToString(l) \o " " \o kind \o " " \o ToJson(<<exp>>))
Check(ok, kind, exp) == IF ok THEN Bump(1) ELSE Report(kind, exp)
Consume == l' = l + 1 /\ TLCSet(10, l + 1)
IsEv(name) == l <= Len(Rec) /\ Ev.ev = name
Faulty == Ev.res.k \in {"panic", "hang", "abort"} \/ (Ev.res.k = "err" /\ Ev.res.e = "Internal")
FaultKind == IF Ev.res.k = "err" THEN "internal" ELSE Ev.res.k
ErrIs(e) == Ev.res.k = "err" /\ Ev.res.e = e

TInit == /\ AInit /\ l = 1 /\ badr = {} /\ badi = {} /\ obs = <<>>
         /\ TLCSet(1, 0) /\ TLCSet(2, 0) /\ TLCSet(3, 0) /\ TLCSet(4, 0) /\ TLCSet(10, 1)

TrCompile ==
  /\ IsEv("compile") /\ Consume /\ UNCHANGED <<badi, obs>>
  /\ LET c == Compile(Ev.pat, Ev.flags, Ev.xpath)  obsok == Ev.res.k = "ok" IN
     IF Faulty THEN Report(FaultKind, "compile") /\ UNCHANGED <<avars, badr>>
     ELSE IF c.k = "uns" THEN /\ Bump(2) /\ UNCHANGED avars
                              /\ badr' = IF obsok THEN badr \cup {Ev.res.rid} ELSE badr
     ELSE IF c.k = "ok" /\ obsok THEN Bump(1) /\ ACompile(Ev.res.rid, Ev.pat, Ev.flags, Ev.xpath) /\ UNCHANGED badr
     ELSE IF c.k = "ok" THEN Report("compile", "ok") /\ UNCHANGED <<avars, badr>>
     ELSE IF obsok THEN Report("compile", c.e) /\ badr' = badr \cup {Ev.res.rid} /\ UNCHANGED avars
     ELSE Check(Ev.res.e \in c.e, "compile_kind", c.e) /\ UNCHANGED <<avars, badr>>

Followed(r) == r \in DOMAIN regs /\ r \notin badr
ProgOfEv == regs[Ev.rid].prog
(* IterAmbig zone of a strict pattern (DESIGN Corrections/5, 9): the reference semantics and the engine's own  *)
(* capture discipline (ApiOps!EngView) are both acceptable - and nothing else is                               *)
DualZone(P, s) == ~P.lit /\ P.strict /\ P.iterambig /\ ~CaseUnspec(P, s) /\ ~GcUnspec(P, s) /\ Len(s) <= 8

TrIsMatch ==
  /\ IsEv("is_match") /\ Consume /\ UNCHANGED <<badr, badi, obs>>
  /\ IF Faulty THEN Report(FaultKind, "is_match") /\ UNCHANGED avars
     ELSE IF ~Followed(Ev.rid) THEN Bump(4) /\ UNCHANGED avars
     ELSE IF InputUnspec(ProgOfEv, Ev.s) THEN
          IF DualZone(ProgOfEv, Ev.s)
          THEN LET a == OpIsMatch(ProgOfEv, Ev.s)  b == OpIsMatch(EngView(ProgOfEv), Ev.s) IN
               Check(Ev.res = a \/ Ev.res = b, "m", a.v) /\ Bump(3) /\ UNCHANGED avars
          ELSE Bump(2) /\ UNCHANGED avars
     ELSE AIsMatch(Ev.rid, Ev.s) /\ Check(Ev.res = last'.res, "m", last'.res.v)

TrReplace ==
  /\ IsEv("replace_all") /\ Consume /\ UNCHANGED <<badr, badi, obs>>
  /\ IF Faulty THEN Report(FaultKind, "replace_all") /\ UNCHANGED avars
     ELSE IF ~Followed(Ev.rid) THEN Bump(4) /\ UNCHANGED avars
     ELSE LET P == ProgOfEv  s == Ev.s  repl == Ev.repl IN
       IF DualZone(P, s) THEN
            LET a == OpReplace(P, s, repl)  b == OpReplace(EngView(P), s, repl)
                Acc(x) == IF x.k = "either" THEN (Ev.res.k = "ok" /\ Ev.res.v = s) \/ ErrIs("InvalidReplacementString")
                          ELSE Ev.res = x
            IN Check(Acc(a) \/ Acc(b), IF a.k = "err" \/ Ev.res.k = "err" THEN "replerr" ELSE "repl", a) /\ Bump(3) /\ UNCHANGED avars
       ELSE IF LangUnspec(P) THEN Bump(2) /\ UNCHANGED avars
       ELSE IF P.nullable THEN Check(ErrIs("MatchesEmptyString"), "nullable", "err") /\ UNCHANGED avars
       ELSE IF ErrIs("MatchesEmptyString") THEN Report("nullable", "ok") /\ UNCHANGED avars
       ELSE IF InputUnspec(P, s) THEN Bump(2) /\ UNCHANGED avars
       ELSE IF SpanUnspec(P, s) \/ (P.iterambig /\ ~P.lit) THEN
            (* only the kind of the outcome is claimed *)
            LET any == IsMatch(P.ast, P.ng, s, P.F)  bad == ~P.lit /\ ~ReplValid(repl) IN
            /\ UNCHANGED avars /\ Bump(3)
            /\ IF ~any THEN Check((Ev.res.k = "ok" /\ Ev.res.v = s) \/ (bad /\ ErrIs("InvalidReplacementString")),
                                  "repl", s)
               ELSE Check(ErrIs("InvalidReplacementString") = bad /\ (Ev.res.k = "ok") = ~bad, "replerr", bad)
       ELSE /\ AReplace(Ev.rid, s, repl)
            /\ LET exp == last'.res IN
               IF exp.k = "either" THEN Check((Ev.res.k = "ok" /\ Ev.res.v = s) \/ ErrIs("InvalidReplacementString"),
                                              "repl", s)
               ELSE Check(Ev.res = exp, IF exp.k = "err" \/ Ev.res.k = "err" THEN "replerr" ELSE "repl", exp)

NewObs(kind, weak) == [rid |-> Ev.rid, kind |-> kind, s |-> Ev.s, pos |-> 1, prev |-> 1, n |-> 0,
                       done |-> FALSE, weak |-> weak, dual |-> FALSE]
NewObsDual(kind) == [NewObs(kind, FALSE) EXCEPT !.dual = TRUE]
TrOpen(kind) ==
  /\ IsEv(IF kind = "tok" THEN "tokenize" ELSE "analyze") /\ Consume /\ UNCHANGED badr
  /\ LET opened == Ev.res.k = "ok" IN
     IF Faulty THEN Report(FaultKind, Ev.ev) /\ UNCHANGED <<avars, obs, badi>>
     ELSE IF ~Followed(Ev.rid)
     THEN Bump(4) /\ UNCHANGED <<avars, obs>> /\ badi' = IF opened THEN badi \cup {Ev.res.it} ELSE badi
     ELSE LET P == ProgOfEv
              o == IF kind = "tok" THEN TokOpen(P, Ev.s) ELSE AnaOpen(P, Ev.s) IN
       IF LangUnspec(P) /\ DualZone(P, Ev.s) THEN
            (* with a back-reference the two semantics may disagree about the matches themselves: the iterator is    *)
            (* followed item by item against both drained sequences                                                 *)
            LET o2 == IF kind = "tok" THEN TokOpen(EngView(P), Ev.s) ELSE AnaOpen(EngView(P), Ev.s) IN
            /\ Check(((o.k = "ok") = opened \/ (o2.k = "ok") = opened) /\ (~opened => ErrIs("MatchesEmptyString")), "nullable", o.k)
            /\ UNCHANGED <<avars, badi>>
            /\ obs' = IF opened THEN (Ev.res.it :> NewObsDual(kind)) @@ obs ELSE obs
       ELSE IF LangUnspec(P) THEN /\ Bump(2) /\ UNCHANGED <<avars, obs>>
                                  /\ badi' = IF opened THEN badi \cup {Ev.res.it} ELSE badi
       ELSE /\ Check((o.k = "ok") = opened /\ (~opened => ErrIs("MatchesEmptyString")), "nullable", o.k)
            /\ IF opened /\ o.k = "ok" THEN
                  IF InputUnspec(P, Ev.s) THEN badi' = badi \cup {Ev.res.it} /\ UNCHANGED <<avars, obs>>
                  ELSE IF SpanUnspec(P, Ev.s)
                  THEN obs' = (Ev.res.it :> NewObs(kind, TRUE)) @@ obs /\ UNCHANGED <<avars, badi>>
                  ELSE /\ AOpen(kind, Ev.rid, Ev.s, Ev.res.it) /\ UNCHANGED badi
                       /\ obs' = (Ev.res.it :> NewObs(kind, FALSE)) @@ obs
               ELSE /\ UNCHANGED <<avars, obs>>
                    /\ badi' = IF opened THEN badi \cup {Ev.res.it} ELSE badi

FlatEntry(v) == IF "n" \in DOMAIN v THEN <<FALSE, v.n>> ELSE <<TRUE, EntryText(v.m)>>
TrNext(kind) ==
  /\ IsEv(IF kind = "tok" THEN "tok_next" ELSE "ana_next") /\ Consume /\ UNCHANGED badr
  /\ LET it == Ev.it IN
     IF Faulty THEN Report(FaultKind, Ev.ev) /\ badi' = badi \cup {it} /\ UNCHANGED <<avars, obs>>
     ELSE IF it \in badi \/ it \notin DOMAIN obs THEN
          (* not followed, but finiteness is still owed: count the items of unfollowed iterators too *)
          Bump(4) /\ UNCHANGED <<avars, obs, badi>>
     ELSE LET O == obs[it]  s == O.s  P == regs[O.rid].prog
              some == Ev.res.k = "some"
              text == IF some THEN ItemText(kind, Ev.res.v) ELSE <<>>
              ismatch == some /\ kind = "ana" /\ "m" \in DOMAIN Ev.res.v
              bound == IF kind = "tok" THEN Len(s) + 1 ELSE 2 * Len(s) + 1
              endpos == O.pos + Len(text)
          IN
       (* what every iterator owes, whatever the pattern: finiteness and (analyze) the partition of the input *)
       /\ IF some /\ (O.done \/ O.n + 1 > bound) THEN Report("items", bound) ELSE TRUE
       /\ IF some /\ kind = "ana" THEN Check(text # <<>> /\ endpos <= Len(s) + 1 /\ SubSeq(s, O.pos, endpos - 1) = text,
                                             "partition", O.pos)
          ELSE TRUE
       /\ obs' = [obs EXCEPT ![it].n = IF some THEN @ + 1 ELSE @, ![it].done = ~some,
                             ![it].pos = IF kind = "ana" THEN endpos ELSE @,
                             ![it].prev = IF ismatch THEN endpos ELSE @]
       /\ IF O.dual THEN
            LET seqOf(Pv) == IF kind = "tok" THEN OpTokens(Pv, s) ELSE OpAnalyze(Pv, s)
                item(Pv) == LET q == seqOf(Pv) IN
                            IF q.k = "ok" /\ O.n + 1 <= Len(q.v) THEN [k |-> "some", v |-> q.v[O.n + 1]] ELSE [k |-> "none"]
                a == item(P)  b == item(EngView(P))
                (* a Match entry whose expected tree is bare text may stand for a match whose group nesting is not  *)
                (* definite (a retained group outside its parent's final span): there only the text is compared   *)
                bare(x) == kind = "ana" /\ x.k = "some" /\ "m" \in DOMAIN x.v /\ Len(x.v.m) = 1 /\ "s" \in DOMAIN x.v.m[1]
                flatEq(x) == some /\ x.k = "some" /\ FlatEntry(Ev.res.v) = FlatEntry(x.v)
            IN /\ UNCHANGED <<avars, badi>> /\ Bump(3)
               /\ Check(Ev.res = a \/ Ev.res = b \/ (bare(a) /\ flatEq(a)) \/ (bare(b) /\ flatEq(b)),
                        IF kind = "tok" THEN "tok" ELSE "anaflat", a)
          ELSE IF O.weak THEN
            (* non-strict pattern: leftmost start and membership of the span in the match relation *)
            /\ UNCHANGED <<avars, badi>> /\ Bump(3)
            /\ IF ismatch THEN Check(/\ LeftmostStart(P.ast, P.ng, s, O.prev, P.F) = O.pos
                                     /\ endpos \in EndsAt(P.ast, P.ng, s, O.pos, P.F) /\ endpos > O.pos,
                                     "weakspan", O.pos)
               ELSE IF ~some /\ kind = "ana"
               THEN Check(O.pos = Len(s) + 1 /\ LeftmostStart(P.ast, P.ng, s, O.prev, P.F) = 0, "weakend", O.pos)
               ELSE TRUE
          ELSE
            LET m == IF kind = "ana" THEN AnaStep(P, s, iters[it].st).m ELSE <<>>
                full == kind = "tok" \/ m = <<>> \/ (~P.iterambig /\ TreeDefinite(P, m))
            IN
            /\ ANext(it)
            /\ LET exp == last'.res
                   (* a group tree in the IterAmbig zone: the reference tree or the tree of the engine's discipline *)
                   (* (a match that was found one step earlier and is pending behind a NonMatch entry carries the captures   *)
                   (* of the reference semantics: the engine view computes its own match from the same position)            *)
                   ist == iters[it].st
                   ist2 == IF ist.pend # <<>> THEN [ist EXCEPT !.pend = FirstM(EngView(P), s, ist.pend.st)] ELSE ist
                   st2 == IF kind = "ana" /\ m # <<>> /\ DualZone(P, s) /\ (ist.pend = <<>> \/ ist2.pend # <<>>)
                          THEN AnaStep(EngView(P), s, ist2) ELSE <<>>
                   dual == st2 # <<>> /\ st2.m # <<>> /\ TreeDefinite(P, m) /\ TreeDefinite(P, st2.m)   \* (else: flat, as before)
                   exp2 == IF dual THEN st2.res ELSE exp
                   same == IF full \/ exp.k # "some" \/ ~some THEN Ev.res = exp
                           ELSE IF dual THEN Ev.res = exp \/ Ev.res = exp2
                           ELSE FlatEntry(Ev.res.v) = FlatEntry(exp.v)
                   kindOf == IF kind = "tok" THEN "tok"
                             ELSE IF exp.k = "some" /\ some /\ FlatEntry(Ev.res.v) = FlatEntry(exp.v) THEN "tree"
                             ELSE "anaflat"
               IN IF same THEN Bump(1) /\ UNCHANGED badi
                  ELSE Report(kindOf, exp) /\ badi' = badi \cup {it}

TrDropIt ==
  /\ IsEv("drop_it") /\ Consume /\ UNCHANGED <<badr, regs, last>>
  /\ iters' = [j \in DOMAIN iters \ {Ev.it} |-> iters[j]]
  /\ obs' = [j \in DOMAIN obs \ {Ev.it} |-> obs[j]]
  /\ badi' = badi \ {Ev.it}
TrDropReg ==
  /\ IsEv("drop_reg") /\ Consume /\ UNCHANGED <<iters, last, badi, obs>>
  /\ regs' = [q \in DOMAIN regs \ {Ev.rid} |-> regs[q]]
  /\ badr' = badr \ {Ev.rid}
TrFault ==                                    \* written by the recorder's parent: a call that never returned
  /\ IsEv("fault") /\ Consume /\ UNCHANGED <<avars, badr, badi, obs>>
  /\ Report(Ev.kind, Ev.call)

TNext == TrCompile \/ TrIsMatch \/ TrReplace \/ TrOpen("tok") \/ TrOpen("ana") \/ TrNext("tok") \/ TrNext("ana")
         \/ TrDropIt \/ TrDropReg \/ TrFault
TSpec == TInit /\ [][TNext]_tvars

Accepted ==
  /\ PrintT("TRACE-STATS " \o ToJson([lines |-> Len(Rec), consumed |-> TLCGet(10) - 1, compared |-> TLCGet(1),
                                      unspec |-> TLCGet(2), weak |-> TLCGet(3), unfollowed |-> TLCGet(4)]))
  /\ TLCGet(10) = Len(Rec) + 1
=============================================================================
